// Floating-point handlers: generator, evaluation, arithmetic, numerical
// integration, dispatch of FpApply/FpBF to the generated expressions, and
// grid construction from special floating-point values (C11).
#include <bspline/integration/numerical.h>

#include <cmath>

#include "vh_fp.h"
#include "vh_ops.h"

namespace verif {
namespace {

void fpGen(const json &in, json &out) {
  dropHints(out);
  forTypes(out, [&](auto tag, FpAcc &acc) {
    using F = decltype(tag);
    const std::vector<F> knots = decVec<F>(in.at("knots"));
    withOrder(in.at("p").get<size_t>(), [&](auto P) {
      constexpr size_t p = decltype(P)::value;
      if constexpr (p <= 5) {
        const auto basis = bspline::generateBSplines<p>(knots);
        const json &E = in.at("E"), &S = in.at("S");
        if (basis.size() != E.size()) {
          acc.ok = false;
          acc.where = "count";
          return;
        }
        for (size_t i = 0; i < basis.size(); i++) cmpSpline(acc, basis[i], E[i], S[i], "B" + std::to_string(i));
      }
    });
  });
}

void fpEval(const json &in, json &out) {
  dropHints(out);
  const json &ja = in.at("a");
  forTypes(out, [&](auto tag, FpAcc &acc) {
    using F = decltype(tag);
    const Grid<F> g = mkGrid<F>(ja.at("g"));
    withOrder(ja.at("o").get<size_t>(), [&](auto O) {
      constexpr size_t o = decltype(O)::value;
      if constexpr (o <= 3) {
        const Spline<F, o> a = mkSpline<F, o>(ja, g);
        const json &xs = in.at("xs");
        for (size_t i = 0; i < xs.size(); i++)
          acc.cmp(a(Codec<F>::dec(xs[i])), ratQ(in.at("E")[i]), ratQ(in.at("S")[i]), "x" + std::to_string(i));
      }
    });
  });
}

void fpBin(const json &in, json &out) {
  dropHints(out);
  const json &ja = in.at("a"), &jb = in.at("b");
  forTypes(out, [&](auto tag, FpAcc &acc) {
    using F = decltype(tag);
    const Grid<F> g = mkGrid<F>(ja.at("g"));
    withOrder(ja.at("o").get<size_t>(), [&](auto OA) {
      withOrder(jb.at("o").get<size_t>(), [&](auto OB) {
        constexpr size_t oa = decltype(OA)::value, ob = decltype(OB)::value;
        if constexpr (oa <= 3 && ob <= 3) {
          const Spline<F, oa> a = mkSpline<F, oa>(ja, g);
          const Spline<F, ob> b = mkSpline<F, ob>(jb, g);
          cmpSpline(acc, a + b, in.at("E").at("add"), in.at("S").at("add"), "add");
          cmpSpline(acc, a - b, in.at("E").at("sub"), in.at("S").at("sub"), "sub");
          cmpSpline(acc, a * b, in.at("E").at("mul"), in.at("S").at("mul"), "mul");
        }
      });
    });
  });
}

template <typename F, size_t N, size_t OA, size_t OB>
F runIntegrate(const std::vector<F> &w, const Spline<F, OA> &a, const Spline<F, OB> &b) {
  return bspline::integration::integrate<N>(
      [&w](const F &x) {
        F r = w.back();
        for (size_t i = w.size() - 1; i-- > 0;) r = r * x + w[i];
        return r;
      },
      a, b);
}

void fpInt(const json &in, json &out) {
  dropHints(out);
  const json &ja = in.at("a"), &jb = in.at("b");
  const size_t n = in.at("n").get<size_t>();
  const bool exact = in.at("exact").get<int>() != 0;
  // float is left out: boost's float tables are the double tables rounded
  {
    json dummy;
  }
  auto body = [&](auto tag, FpAcc &acc) {
    using F = decltype(tag);
    const Grid<F> g = mkGrid<F>(ja.at("g"));
    const std::vector<F> w = decVec<F>(in.at("w"));
    withOrder(ja.at("o").get<size_t>(), [&](auto OA) {
      withOrder(jb.at("o").get<size_t>(), [&](auto OB) {
        constexpr size_t oa = decltype(OA)::value, ob = decltype(OB)::value;
        if constexpr (oa <= 3 && ob <= 3) {
          const Spline<F, oa> a = mkSpline<F, oa>(ja, g);
          const Spline<F, ob> b = mkSpline<F, ob>(jb, g);
          F v = 0;
          switch (n) {
            case 1: v = runIntegrate<F, 1>(w, a, b); break;
            case 2: v = runIntegrate<F, 2>(w, a, b); break;
            case 3: v = runIntegrate<F, 3>(w, a, b); break;
            case 4: v = runIntegrate<F, 4>(w, a, b); break;
            case 5: v = runIntegrate<F, 5>(w, a, b); break;
            case 6: v = runIntegrate<F, 6>(w, a, b); break;
            default: throw std::runtime_error("harness: quadrature size");
          }
          const Q S = ratQ(in.at("S"));
          if (exact) {
            acc.cmp(v, ratQ(in.at("E")), S, "int");
          } else {
            // below the exactness bound only "zero when there is no common interval" is required
            acc.cmp(v, ratQ(in.at("E")), S == 0 ? S : static_cast<Q>(1e30L), "int0");
          }
        }
      });
    });
  };
  {
    FpAcc a;
    guarded(out, "out_d", [&] { body(double{}, a); });
    out["double"] = a.toJson();
  }
  {
    FpAcc a;
    guarded(out, "out_l", [&] { body(static_cast<long double>(0), a); });
    out["ldouble"] = a.toJson();
  }
}

void fpApply(const json &in, json &out) {
  const std::string key = in.at("ast").dump();
  auto it = applyRegistry().find(key);
  if (it == applyRegistry().end()) {
    out["harness_error"] = "expression not compiled: " + key;
    return;
  }
  it->second(in, out);
}
void fpBF(const json &in, json &out) {
  const std::string key = in.at("e1").dump() + "|" + in.at("e2").dump();
  auto it = bfRegistry().find(key);
  if (it == bfRegistry().end()) {
    out["harness_error"] = "expression pair not compiled: " + key;
    return;
  }
  it->second(in, out);
}

// special floating values: [tag, n, d]  tag 0 = n/d, 1 = NaN, 2 = +Inf, 3 = -Inf, 4 = -0.0
template <typename F>
F decSpecial(const json &t) {
  switch (t.at(0).get<int>()) {
    case 1: return std::numeric_limits<F>::quiet_NaN();
    case 2: return std::numeric_limits<F>::infinity();
    case 3: return -std::numeric_limits<F>::infinity();
    case 4: return -static_cast<F>(0);
    default: return static_cast<F>(t.at(1).get<long long>()) / static_cast<F>(t.at(2).get<long long>());
  }
}
template <typename F>
void gridSpecialT(const json &in, json &out, const std::string &key) {
  std::vector<F> pts;
  for (const auto &t : in.at("pts")) pts.push_back(decSpecial<F>(t));
  guarded(out, key, [&] {
    const Grid<F> g(pts);
    out[key + "_size"] = g.size();
  });
}
void fpGridNew(const json &in, json &out) {
  gridSpecialT<float>(in, out, "f");
  gridSpecialT<double>(in, out, "d");
  gridSpecialT<long double>(in, out, "l");
}

Reg r1("FpGen", fpGen), r2("FpEval", fpEval), r3("FpBin", fpBin), r4("FpInt", fpInt), r5("FpApply", fpApply),
    r6("FpBF", fpBF), r7("FpGridNew", fpGridNew);
}  // namespace
}  // namespace verif
