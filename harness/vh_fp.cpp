// Floating-point handlers: generator, evaluation, arithmetic, numerical
// integration, dispatch of FpApply/FpBF to the generated expressions, and
// grid construction from special floating-point values (C11).
#include <bspline/integration/numerical.h>
#include <bspline/interpolation/interpolation.h>

#include <cmath>

#include "vh_fp.h"
#include "vh_ops.h"

namespace verif {
namespace {

// rescales a spline generated on knots * 2^-s back to the unit scale: the
// coefficient of u^k is multiplied by 2^(-s k) (exact: powers of two)
template <typename F, size_t O>
Spline<F, O> rescaled(const Spline<F, O> &r, const Grid<F> &unitGrid, int s) {
  auto c = r.getCoefficients();
  for (auto &iv : c)
    for (size_t k = 0; k <= O; k++) iv[k] = std::ldexp(iv[k], -s * static_cast<int>(k));
  return Spline<F, O>(Support<F>(unitGrid, r.getSupport().getStartIndex(), r.getSupport().getEndIndex()), std::move(c));
}

void fpGen(const json &in, json &out) {
  dropHints(out);
  forTypes(out, [&](auto tag, FpAcc &acc) {
    using F = decltype(tag);
    // float cannot hold 2^(60 k): it is scaled by 2^-30 (spacing ~1e-9 << eps_float)
    const int sexp = std::min(in.value("sexp", 0), std::is_same_v<F, float> ? 30 : 1000);
    const std::vector<F> unit = decVec<F>(in.at("knots"));
    std::vector<F> knots = unit;
    for (auto &x : knots) x = std::ldexp(x, -sexp);
    withOrder(in.at("p").get<size_t>(), [&](auto P) {
      constexpr size_t p = decltype(P)::value;
      if constexpr (p <= 5) {
        const auto basis = bspline::generateBSplines<p>(knots);
        const json &E = in.at("E"), &S = in.at("S");
        if (basis.size() != E.size()) {
          acc.ok = false;
          acc.where = "count";
          return;
        }
        const bspline::BSplineGenerator<F> unitGen(unit);
        const Grid<F> ug = unitGen.getGrid();
        for (size_t i = 0; i < basis.size(); i++) {
          if (sexp == 0)
            cmpSpline(acc, basis[i], E[i], S[i], "B" + std::to_string(i));
          else
            cmpSpline(acc, rescaled(basis[i], ug, sexp), E[i], S[i], "B" + std::to_string(i));
        }
      }
    });
  });
}

void fpEval(const json &in, json &out) {
  dropHints(out);
  const json &ja = in.at("a");
  forTypes(out, [&](auto tag, FpAcc &acc) {
    using F = decltype(tag);
    const Grid<F> g = mkGrid<F>(ja.at("g"));
    withOrder(ja.at("o").get<size_t>(), [&](auto O) {
      constexpr size_t o = decltype(O)::value;
      if constexpr (o <= 3) {
        const Spline<F, o> a = mkSpline<F, o>(ja, g);
        const json &xs = in.at("xs");
        for (size_t i = 0; i < xs.size(); i++)
          acc.cmp(a(Codec<F>::dec(xs[i])), ratQ(in.at("E")[i]), ratQ(in.at("S")[i]), "x" + std::to_string(i));
#ifndef VH_NO_EXACT_TWIN
        try {  // second pass with full-mantissa coefficients (see vh_fp.h)
          const Grid<Rat> gr = mkGrid<Rat>(ja.at("g"));
          const auto ap = perturbedSpline(a, caseKey(in));
          const auto ar = exactTwin(ap, gr);
          for (size_t i = 0; i < xs.size(); i++)
            acc.cmp(ap(Codec<F>::dec(xs[i])), ratToQ(ar(Codec<Rat>::dec(xs[i]))), 2 * ratQ(in.at("S")[i]), "px" + std::to_string(i));
        } catch (const RatError &) {
        }
#endif
      }
    });
  });
}

void fpBin(const json &in, json &out) {
  dropHints(out);
  const json &ja = in.at("a"), &jb = in.at("b");
  forTypes(out, [&](auto tag, FpAcc &acc) {
    using F = decltype(tag);
    const Grid<F> g = mkGrid<F>(ja.at("g"));
    withOrder(ja.at("o").get<size_t>(), [&](auto OA) {
      withOrder(jb.at("o").get<size_t>(), [&](auto OB) {
        constexpr size_t oa = decltype(OA)::value, ob = decltype(OB)::value;
        if constexpr (oa <= 3 && ob <= 3) {
          const Spline<F, oa> a = mkSpline<F, oa>(ja, g);
          const Spline<F, ob> b = mkSpline<F, ob>(jb, g);
          cmpSpline(acc, a + b, in.at("E").at("add"), in.at("S").at("add"), "add");
          cmpSpline(acc, a - b, in.at("E").at("sub"), in.at("S").at("sub"), "sub");
          cmpSpline(acc, a * b, in.at("E").at("mul"), in.at("S").at("mul"), "mul");
          {
            // splines that denote zero but carry signed zeros (C15: isZero is true exactly when the spline
            // evaluates to zero everywhere)
            const F z = static_cast<F>(0);
            acc.zero((a * z).isZero());
            acc.zero((a * (-z)).isZero());
            acc.zero((-(a * z)).isZero());
            acc.zero((z * b).isZero());
            acc.zero((a - a).isZero());
            Spline<F, oa> t(a);
            t *= -z;
            acc.zero(t.isZero());
            acc.zero(((a * z) + (b * (-z))).isZero());
          }
#ifndef VH_NO_EXACT_TWIN
          try {  // second pass with full-mantissa coefficients (see vh_fp.h)
            const Grid<Rat> gr = mkGrid<Rat>(ja.at("g"));
            const auto ap = perturbedSpline(a, caseKey(in));
            const auto bp = perturbedSpline(b, caseKey(in) + 7);
            const auto ar = exactTwin(ap, gr);
            const auto br = exactTwin(bp, gr);
            cmpSplineTwin(acc, ap + bp, ar + br, in.at("S").at("add"), "padd");
            cmpSplineTwin(acc, ap - bp, ar - br, in.at("S").at("sub"), "psub");
            cmpSplineTwin(acc, ap * bp, ar * br, in.at("S").at("mul"), "pmul");
          } catch (const RatError &) {
          }
#endif
        }
      });
    });
  });
}

template <typename F, size_t N, size_t OA, size_t OB>
F runIntegrate(const std::vector<F> &w, const Spline<F, OA> &a, const Spline<F, OB> &b) {
  return bspline::integration::integrate<N>(
      [&w](const F &x) {
        F r = w.back();
        for (size_t i = w.size() - 1; i-- > 0;) r = r * x + w[i];
        return r;
      },
      a, b);
}

// the analytic side of C17: the same polynomial weight as an operator, w0 + w1 x + ... + w6 x^6
// left = true: the weight in the left slot of a two-operator form, <W a | b>
template <typename F, size_t OA, size_t OB>
F runAnalytic(const std::vector<F> &w, const Spline<F, OA> &a, const Spline<F, OB> &b, bool left = false) {
  using namespace bspline::operators;
  std::vector<F> v = w;
  v.resize(7, static_cast<F>(0));
  const auto W = v[0] * IdentityOperator{} + v[1] * X<1>{} + v[2] * X<2>{} + v[3] * X<3>{} + v[4] * X<4>{} + v[5] * X<5>{} + v[6] * X<6>{};
  if (left) return bspline::integration::BilinearForm{W, IdentityOperator{}}.evaluate(a, b);
  return bspline::integration::BilinearForm{W}.evaluate(a, b);
}

void fpInt(const json &in, json &out) {
  dropHints(out);
  const bool foreign = in.at("op") == "FpIntX";   // b lives on its own, logically different grid
  const json &ja = in.at("a"), &jb = in.at("b");
  const size_t n = in.at("n").get<size_t>();
  const bool exact = in.value("exact", 0) != 0;
  // float is left out: boost's float tables are the double tables rounded
  {
    json dummy;
  }
  auto body = [&](auto tag, FpAcc &acc) {
    using F = decltype(tag);
    const Grid<F> g = mkGrid<F>(ja.at("g"));
    const std::vector<F> w = decVec<F>(in.at("w"));
    withOrder(ja.at("o").get<size_t>(), [&](auto OA) {
      withOrder(jb.at("o").get<size_t>(), [&](auto OB) {
        constexpr size_t oa = decltype(OA)::value, ob = decltype(OB)::value;
        if constexpr (oa <= 3 && ob <= 3) {
          const Grid<F> gb = mkGrid<F>(jb.at("g"));
          const Spline<F, oa> a = mkSpline<F, oa>(ja, g);
          const Spline<F, ob> b = mkSpline<F, ob>(jb, foreign ? gb : g);
          F v = 0;
          switch (n) {
            case 1: v = runIntegrate<F, 1>(w, a, b); break;
            case 2: v = runIntegrate<F, 2>(w, a, b); break;
            case 3: v = runIntegrate<F, 3>(w, a, b); break;
            case 4: v = runIntegrate<F, 4>(w, a, b); break;
            case 5: v = runIntegrate<F, 5>(w, a, b); break;
            case 6: v = runIntegrate<F, 6>(w, a, b); break;
            case 7: v = runIntegrate<F, 7>(w, a, b); break;
            default: throw std::runtime_error("harness: quadrature size");
          }
          if (foreign) return;  // reaching this point is the failure: the call should have thrown
          const Q S = ratQ(in.at("S"));
          // "equals the analytic bilinear form with f as operator": both sides against the exact weighted integral
          acc.cmp(runAnalytic<F, oa, ob>(w, a, b), ratQ(in.at("E")), S, "bf");
          acc.cmp(runAnalytic<F, oa, ob>(w, a, b, true), ratQ(in.at("E")), S, "bf (weight on the left)");
          if (exact) {
            acc.cmp(v, ratQ(in.at("E")), S, "int");
          } else {
            // below the exactness bound only "zero when there is no common interval" is required
            acc.cmp(v, ratQ(in.at("E")), S == 0 ? S : static_cast<Q>(1e30L), "int0");
          }
        }
      });
    });
  };
  {
    FpAcc a;
    guarded(out, "out_d", [&] { body(double{}, a); });
    out["double"] = a.toJson();
  }
  {
    FpAcc a;
    guarded(out, "out_l", [&] { body(static_cast<long double>(0), a); });
    out["ldouble"] = a.toJson();
  }
}

void fpApply(const json &in, json &out) {
  const std::string key = in.at("ast").dump();
  auto it = applyRegistry().find(key);
  if (it == applyRegistry().end()) {
    out["harness_error"] = "expression not compiled: " + key;
    return;
  }
  it->second(in, out);
}
void fpBF(const json &in, json &out) {
  const std::string key = in.at("e1").dump() + "|" + in.at("e2").dump();
  auto it = bfRegistry().find(key);
  if (it == bfRegistry().end()) {
    out["harness_error"] = "expression pair not compiled: " + key;
    return;
  }
  it->second(in, out);
}


// ---------------------------------------------------------------- interpolation, bundled dense solver (C12)
// The returned spline must satisfy every row of the interpolation conditions
// (node values from both adjacent pieces, continuity of derivatives
// 1..order-1 at interior nodes, boundary rows) up to the solver's backward
// error, normwise:  max_i |row_i . x - b_i| <= 2^20 eps (||M||_inf ||x||_inf + ||b||_inf).
// Rows are evaluated in __float128 from the returned coefficients.
template <typename F, size_t O>
void interpResidual(FpAcc &acc, const json &in, const Spline<F, O> &r) {
  const json &jx = in.at("x");
  const size_t s = jx.at("s").get<size_t>(), e = jx.at("e").get<size_t>();
  const size_t n = e - s;
  std::vector<Q> g;
  for (const auto &p : jx.at("g")) g.push_back(ratQ(p));
  const auto &c = r.getCoefficients();
  if (r.getSupport().getStartIndex() != s || r.getSupport().getEndIndex() != e || c.size() != n - 1) {
    acc.ok = false;
    acc.where = "window";
    return;
  }
  Q maxRes = 0, normM = 0, normX = 0, normB = 0;
  for (const auto &iv : c)
    for (const auto &v : iv) {
      acc.feed(static_cast<long double>(v));
      normX = std::max(normX, qabs(static_cast<Q>(v)));
    }
  // value of the d-th derivative of piece j at local coordinate u, and the abs row sum
  auto row = [&](size_t j, Q u, size_t d, Q &absSum) {
    Q val = 0, pw = 1;
    absSum = 0;
    for (size_t k = d; k <= O; k++) {
      Q f = 1;
      for (size_t m = k; m > k - d; m--) f *= static_cast<Q>(m);
      val += f * pw * static_cast<Q>(c[j][k]);
      absSum += qabs(f * pw);
      pw *= u;
    }
    return val;
  };
  auto half = [&](size_t j) { return (g[s + j + 1] - g[s + j]) / 2; };
  auto note = [&](Q lhs, Q rhs, Q absSum) {
    maxRes = std::max(maxRes, qabs(lhs - rhs));
    normM = std::max(normM, absSum);
    normB = std::max(normB, qabs(rhs));
  };
  const json &y = in.at("y");
  for (size_t i = 0; i < n; i++) {
    Q a1, a2;
    if (i + 1 < n) note(row(i, -half(i), 0, a1), ratQ(y[i]), a1);
    if (i >= 1) note(row(i - 1, half(i - 1), 0, a2), ratQ(y[i]), a2);
  }
  for (size_t i = 1; i + 1 < n; i++)
    for (size_t d = 1; d < O; d++) {
      Q a1, a2;
      const Q l = row(i - 1, half(i - 1), d, a1), rr = row(i, -half(i), d, a2);
      maxRes = std::max(maxRes, qabs(l - rr));
      normM = std::max(normM, a1 + a2);
    }
  for (const auto &b : in.at("bcs")) {
    Q a1;
    const size_t d = b.at("d").get<size_t>();
    if (b.at("node").get<int>() == 0)
      note(row(0, -half(0), d, a1), ratQ(b.at("v")), a1);
    else
      note(row(n - 2, half(n - 2), d, a1), ratQ(b.at("v")), a1);
  }
  acc.n++;
  const Q eps = static_cast<Q>(std::numeric_limits<F>::epsilon());
  const Q tol = static_cast<Q>(1048576.0L) * eps * (normM * normX + normB);
  if (!(maxRes <= tol)) {
    acc.ok = false;
    acc.where = "residual";
  }
  const Q den = eps * (normM * normX + normB);
  if (den > 0) acc.worst = std::max(acc.worst, static_cast<long double>(maxRes / den));
}

void fpInterp(const json &in, json &out) {
  using namespace bspline::interpolation;
  const json &jx = in.at("x");
  const bool dflt = in.at("dflt").get<int>() != 0;
  forTypes(out, [&](auto tag, FpAcc &acc) {
    using F = decltype(tag);
    const Grid<F> g = mkGrid<F>(jx.at("g"));
    // named, non-const operands; compared with untouched copies after the call (C14)
    Support<F> x = mkSupport<F>(jx, g);
    std::vector<F> y = decVec<F>(in.at("y"));
    const Support<F> x0 = x;
    const std::vector<F> y0 = y;
    withOrder(in.at("order").get<size_t>(), [&](auto O) {
      constexpr size_t o = decltype(O)::value;
      if constexpr (o >= 1 && o <= 4) {
        std::array<Boundary<F>, o - 1> bcs;
        const json &jb = in.at("bcs");
        for (size_t i = 0; i < o - 1; i++)
          bcs[i] = Boundary<F>{jb.at(i).at("node").get<int>() == 0 ? Node::FIRST : Node::LAST, jb.at(i).at("d").get<size_t>(),
                               Codec<F>::dec(jb.at(i).at("v"))};
        const auto bcs0 = bcs;
        const auto r = dflt ? interpolateUsingEigen<F, o>(x, y) : interpolateUsingEigen<F, o>(x, y, bcs);
        interpResidual(acc, in, r);
        bool same = x.getStartIndex() == x0.getStartIndex() && x.getEndIndex() == x0.getEndIndex() && x.getGrid() == g && y == y0;
        for (size_t i = 0; i < bcs.size(); i++)
          same = same && bcs[i].node == bcs0[i].node && bcs[i].derivative == bcs0[i].derivative && bcs[i].value == bcs0[i].value;
        if (!same) {
          acc.ok = false;
          acc.where = "operand changed by the call";
        }
      }
    });
  });
}

// special floating values: [tag, n, d]  tag 0 = n/d, 1 = NaN, 2 = +Inf, 3 = -Inf, 4 = -0.0
template <typename F>
F decSpecial(const json &t) {
  switch (t.at(0).get<int>()) {
    case 1: return std::numeric_limits<F>::quiet_NaN();
    case 2: return std::numeric_limits<F>::infinity();
    case 3: return -std::numeric_limits<F>::infinity();
    case 4: return -static_cast<F>(0);
    default: return static_cast<F>(t.at(1).get<long long>()) / static_cast<F>(t.at(2).get<long long>());
  }
}
// projection of a point of a live grid back into the [tag, n, d] form (inputs are small integers)
template <typename F>
json encSpecial(const F &v) {
  if (v != v) return json::array({1, 0, 1});
  if (v == std::numeric_limits<F>::infinity()) return json::array({2, 0, 1});
  if (v == -std::numeric_limits<F>::infinity()) return json::array({3, 0, 1});
  if (v == 0 && std::signbit(v)) return json::array({4, 0, 1});
  const long long n = static_cast<long long>(v);
  if (static_cast<F>(n) != v || n > 1000 || n < -1000) {
    bigFlag() = true;
    return json::array({0, 0, 1});
  }
  return json::array({0, n, 1});
}
template <typename F>
void gridSpecialT(const json &in, json &out, const std::string &key) {
  std::vector<F> pts;
  for (const auto &t : in.at("pts")) pts.push_back(decSpecial<F>(t));
  out[key + "_live"] = json::array();
  guarded(out, key, [&] {
    const Grid<F> g(pts);
    out[key + "_size"] = g.size();
    // the live object as its accessors show it (C10)
    json live = json::array();
    for (size_t i = 0; i < g.size(); i++) live.push_back(encSpecial<F>(g[i]));
    out[key + "_live"] = std::move(live);
  });
}
void fpGridNew(const json &in, json &out) {
  gridSpecialT<float>(in, out, "f");
  gridSpecialT<double>(in, out, "d");
  gridSpecialT<long double>(in, out, "l");
}

Reg r1("FpGen", fpGen), r2("FpEval", fpEval), r3("FpBin", fpBin), r4("FpInt", fpInt), r4x("FpIntX", fpInt), r5("FpApply", fpApply),
    r6("FpBF", fpBF), r7("FpGridNew", fpGridNew), r8("FpInterp", fpInterp);
}  // namespace
}  // namespace verif
