// Handler for the B-spline generator (BSplineGenerator.h): C01, C08, C11.
#include "vh_common.h"

namespace verif {
namespace {
#ifndef VH_SCALAR
#define VH_SCALAR Rat
#endif

template <typename T>
void genH(const json &in, json &out) {
  VH_OPERAND std::vector<T> knots = decVec<T>(in.at("knots"));
  const int route = in.at("route").get<int>();
  withOrder(in.at("p").get<size_t>(), [&](auto P) {
    constexpr size_t p = decltype(P)::value;
    if constexpr (p <= 5) {
      out["knots_after"] = json::array();
      // construction and generation are separate public calls with separate outcomes: "ctor" is the
      // constructor's (accepts exactly the valid knot vectors / matching grids), "out" the overall one
      std::shared_ptr<const bspline::BSplineGenerator<T>> gp;
      std::optional<Grid<T>> g;
      bool built = true;
      if (route == 0) {
        // in threaded mode the generator is a shared const object (C18)
        built = guarded(out, "ctor", [&] {
          gp = cached<bspline::BSplineGenerator<T>>(std::string("Gen") + Codec<T>::name + in.at("knots").dump(),
                                                   [&] { return new bspline::BSplineGenerator<T>(knots); });
        });
      } else if (route == 1) {
        built = guarded(out, "ctor", [&] {
          g.emplace(decVec<T>(in.at("grid")));
          gp = std::make_shared<const bspline::BSplineGenerator<T>>(knots, *g);
        });
      }
      if (!built) {
        for (const char *k : {"", "_code", "_what"})
          if (out.contains(std::string("ctor") + k)) out[std::string("out") + k] = out[std::string("ctor") + k];
      } else {
        guarded(out, "out", [&] {
          std::vector<Spline<T, p>> r;
          if (route == 2) {
            r = bspline::generateBSplines<p>(knots);
          } else {
            const bspline::BSplineGenerator<T> &gen = *gp;
            r = gen.template generateBSplines<p>();
            out["ggrid"] = projGrid(gen.getGrid());
            if (route == 1) out["grid_shared"] = (gen.getGrid().getData().get() == g->getData().get()) ? 1 : 0;
          }
          json a = json::array();
          for (const auto &s : r) a.push_back(projSpline(s));
          out["res"] = a;
        });
      }
      out["knots_after"] = encVec(knots);
    }
  });
}
Reg r1("Gen", genH<VH_SCALAR>);
}  // namespace
}  // namespace verif
