// Handler for the B-spline generator (BSplineGenerator.h): C01, C08, C11.
#include "vh_common.h"

namespace verif {
namespace {
#ifndef VH_SCALAR
#define VH_SCALAR Rat
#endif

template <typename T>
void genH(const json &in, json &out) {
  VH_OPERAND std::vector<T> knots = decVec<T>(in.at("knots"));
  const int route = in.at("route").get<int>();
  withOrder(in.at("p").get<size_t>(), [&](auto P) {
    constexpr size_t p = decltype(P)::value;
    if constexpr (p <= 5) {
      out["knots_after"] = json::array();
      guarded(out, "out", [&] {
        std::vector<Spline<T, p>> r;
        if (route == 0) {
          // in threaded mode the generator is a shared const object (C18)
          const auto gp = cached<bspline::BSplineGenerator<T>>(std::string("Gen") + Codec<T>::name + in.at("knots").dump(),
                                                              [&] { return new bspline::BSplineGenerator<T>(knots); });
          const bspline::BSplineGenerator<T> &gen = *gp;
          r = gen.template generateBSplines<p>();
          out["ggrid"] = projGrid(gen.getGrid());
        } else if (route == 1) {
          VH_OPERAND Grid<T> g(decVec<T>(in.at("grid")));
          const bspline::BSplineGenerator<T> gen(knots, g);
          r = gen.template generateBSplines<p>();
          out["ggrid"] = projGrid(gen.getGrid());
          out["grid_shared"] = (gen.getGrid().getData().get() == g.getData().get()) ? 1 : 0;
        } else {
          r = bspline::generateBSplines<p>(knots);
        }
        json a = json::array();
        for (const auto &s : r) a.push_back(projSpline(s));
        out["res"] = a;
      });
      out["knots_after"] = encVec(knots);
    }
  });
}
Reg r1("Gen", genH<VH_SCALAR>);
}  // namespace
}  // namespace verif
