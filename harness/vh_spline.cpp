// Handlers for the spline family (Spline.h): C02, C03, C08, C10, C11, C14, C15.
#include <algorithm>

#include "vh_common.h"

namespace verif {
namespace {

#ifndef VH_SCALAR
#define VH_SCALAR Rat
#endif
constexpr size_t OPMAX = 5;  // operand orders 0..5 (results up to 10)
// binary calls: every pair of orders 0..3; an operand of order 4 or 5 with a partner of order <= 3 or of its own order
constexpr bool pairOK(size_t oa, size_t ob) {
  return (oa <= 3 && ob <= 3) || (oa >= 4 && oa <= OPMAX && (ob <= 3 || ob == oa)) || (ob >= 4 && ob <= OPMAX && oa <= 3);
}

// SplNew: construction from (support window, coefficients) with every count;
// also the grid-only constructor and the deduction guide.
template <typename T>
void splNew(const json &in, json &out) {
  VH_OPERAND Grid<T> g = mkGrid<T>(in.at("g"));
  const size_t o = in.at("o").get<size_t>();
  withOrder(o, [&](auto O) {
    constexpr size_t ord = decltype(O)::value;
    if constexpr (ord <= OPMAX) {
      std::optional<Spline<T, ord>> p;
      if (guarded(out, "out", [&] {
            Support<T> S(g, in.at("s").get<size_t>(), in.at("e").get<size_t>());
            p.emplace(std::move(S), decCoeffs<T, ord>(in.at("c")));
          }))
        out["res"] = projSpline(*p);
      const Spline<T, ord> e(g);
      out["mkempty"] = projSpline(e);
      out["g_after"] = projGrid(g);
    }
  });
}

// SplEval: operator() at many abscissae, front(), back()
template <typename T>
void splEval(const json &in, json &out) {
  const json &ja = in.at("a");
  {
    const auto gp = opGrid<T>(ja.at("g"));
    auto &g = operandRef(gp);
    withOrder(ja.at("o").get<size_t>(), [&](auto O) {
      constexpr size_t ord = decltype(O)::value;
      if constexpr (ord <= OPMAX) {
        const auto pp = opSpline<T, ord>(ja, g);
        auto &p = operandRef(pp);
        out["a"] = projSpline(p);
        json vals = json::array();
        for (const auto &jx : in.at("xs")) vals.push_back(Codec<T>::enc(p(Codec<T>::dec(jx))));
        out["vals"] = vals;
        // second pass in the opposite order on the same object: evaluation must not depend on what was evaluated before
        json vals2 = json::array();
        const json &xs = in.at("xs");
        for (size_t i = xs.size(); i-- > 0;) vals2.push_back(Codec<T>::enc(p(Codec<T>::dec(xs[i]))));
        std::reverse(vals2.begin(), vals2.end());
        out["vals2"] = vals2;
        T v{};
        if (guarded(out, "front", [&] { v = p.front(); })) out["front_v"] = Codec<T>::enc(v);
        if (guarded(out, "back", [&] { v = p.back(); })) out["back_v"] = Codec<T>::enc(v);
        out["a_after"] = projSpline(p);
      }
    });
  }
  // Third pass ("churn"): the grid and the spline above are gone; a grid with as many points, every point moved by
  // one half, and the same coefficients on it are built in their place - most likely in the very same storage -
  // and evaluated at the moved abscissae.  What an evaluation returns must depend on the object alone, not on an
  // object that lived at that address before (sequential builds only: in the threaded builds the operands are shared
  // and the per-thread logs are compared textually with a sequential log of the same binary).
#ifndef VH_CONST_OPERANDS
  if (opCache().mode == 0) {
    const T half = static_cast<T>(1) / static_cast<T>(2);
    std::vector<T> pts = decVec<T>(ja.at("g"));
    for (auto &x : pts) x += half;
    const Grid<T> g2(std::move(pts));  // (the buffer just allocated - where the first grid's points lived - becomes the grid's storage)
    withOrder(ja.at("o").get<size_t>(), [&](auto O) {
      constexpr size_t ord = decltype(O)::value;
      if constexpr (ord <= OPMAX) {
        const Spline<T, ord> p2 = mkSpline<T, ord>(ja, g2);
        out["a2"] = projSpline(p2);
        json xs2 = json::array(), vals3 = json::array();
        for (const auto &jx : in.at("xs")) {
          const T x = Codec<T>::dec(jx) + half;
          xs2.push_back(Codec<T>::enc(x));
          vals3.push_back(Codec<T>::enc(p2(x)));
        }
        out["xs2"] = xs2;
        out["vals3"] = vals3;
      }
    });
  }
#endif
}

// SplUn: scalar operations, unary minus, predicates, cross-order assignment
template <typename T>
void splUn(const json &in, json &out) {
  const json &ja = in.at("a");
  const auto gp = opGrid<T>(ja.at("g"));
  auto &g = operandRef(gp);
  const T k = Codec<T>::dec(in.at("k"));
  const bool kz = (k == static_cast<T>(0));
  withOrder(ja.at("o").get<size_t>(), [&](auto O) {
    constexpr size_t ord = decltype(O)::value;
    if constexpr (ord <= OPMAX) {
      const auto pp = opSpline<T, ord>(ja, g);
      auto &p = operandRef(pp);
      out["a"] = projSpline(p);
      out["mulr"] = projSpline(p * k);
      out["mull"] = projSpline(k * p);
      out["neg"] = projSpline(-p);
      if (!kz) out["div"] = projSpline(p / k);
      {
        Spline<T, ord> q(p);
        Spline<T, ord> &ref = (q *= k);
        out["imul"] = projSpline(q);
        out["imul_ref"] = (&ref == &q) ? 1 : 0;
      }
      if (!kz) {
        Spline<T, ord> q(p);
        Spline<T, ord> &ref = (q /= k);
        out["idiv"] = projSpline(q);
        out["idiv_ref"] = (&ref == &q) ? 1 : 0;
      }
      out["iszero"] = p.isZero() ? 1 : 0;
      {
        // cross-order assignment onto a target that already holds data
        Spline<T, ord + 1> hi(Support<T>::createWholeGrid(g),
                              std::vector<std::array<T, ord + 2>>(g.size() - 1, bspline::internal::make_array<T, ord + 2>(static_cast<T>(7))));
        hi = p;
        out["up1"] = projSpline(hi);
        Spline<T, ord + 3> hi3(g);
        hi3 = p;
        out["up3"] = projSpline(hi3);
      }
      {
        const Spline<T, ord> c(p);
        out["copy_eq"] = (c == p && !(c != p)) ? 1 : 0;
        out["copy_distinct"] = (p.getCoefficients().empty() || c.getCoefficients().data() != p.getCoefficients().data()) ? 1 : 0;
      }
      out["a_after"] = projSpline(p);
    }
  });
}

// SplBin: + - * += -= checkOverlap == !=
template <typename T>
void splBin(const json &in, json &out) {
  const json &ja = in.at("a"), &jb = in.at("b");
  const auto gap = opGrid<T>(ja.at("g"));
  auto &ga = operandRef(gap);
  const bool share = in.value("share", 0) != 0;
  // share = 0: b lives on its own Grid instance (in threaded mode equal grids are one shared instance)
  const auto gbp = (share || opCache().mode != 0) ? (share ? gap : opGrid<T>(jb.at("g"), 1))
                                                  : std::shared_ptr<const Grid<T>>(new Grid<T>(decVec<T>(jb.at("g"))));
  auto &gb = operandRef(gbp);
  withOrder(ja.at("o").get<size_t>(), [&](auto OA) {
    withOrder(jb.at("o").get<size_t>(), [&](auto OB) {
      constexpr size_t oa = decltype(OA)::value, ob = decltype(OB)::value;
      if constexpr (pairOK(oa, ob)) {
        const auto ap = opSpline<T, oa>(ja, ga);
        const auto bp = opSpline<T, ob>(jb, gb, share ? 0 : 1);
        auto &a = operandRef(ap);
        auto &b = operandRef(bp);
        out["a"] = projSpline(a);
        out["b"] = projSpline(b);
        guarded(out, "add", [&] { out["add_v"] = projSpline(a + b); });
        guarded(out, "sub", [&] { out["sub_v"] = projSpline(a - b); });
        guarded(out, "mul", [&] { out["mul_v"] = projSpline(a * b); });
        out["overlap"] = a.checkOverlap(b) ? 1 : 0;
        if constexpr (ob <= oa) {
          {
            Spline<T, oa> t(a);
            guarded(out, "iadd", [&] { t += b; });
            out["iadd_v"] = projSpline(t);  // also after a throw: must be unchanged
          }
          {
            Spline<T, oa> t(a);
            guarded(out, "isub", [&] { t -= b; });
            out["isub_v"] = projSpline(t);
          }
        }
        if constexpr (oa == ob) {
          out["eq"] = (a == b) ? 1 : 0;
          out["ne"] = (a != b) ? 1 : 0;
        }
        out["a_after"] = projSpline(a);
        out["b_after"] = projSpline(b);
      }
    });
  });
}

// SplLin: linearCombination, both overloads; every spline on its own Grid
// instance unless "share" is set
template <typename T>
void splLin(const json &in, json &out) {
  const json &jss = in.at("ss");
  const size_t o = in.at("o").get<size_t>();
  const bool share = in.value("share", 0) != 0;
  VH_OPERAND std::vector<T> cs = decVec<T>(in.at("cs"));
  withOrder(o, [&](auto O) {
    constexpr size_t ord = decltype(O)::value;
    if constexpr (ord <= OPMAX) {
      std::vector<Spline<T, ord>> ss;
      std::optional<Grid<T>> g0;
      for (const auto &js : jss) {
        if (!g0 || !share) g0.emplace(decVec<T>(js.at("g")));
        ss.push_back(mkSpline<T, ord>(js, *g0));
      }
      json pss = json::array();
      for (const auto &s : ss) pss.push_back(projSpline(s));
      out["ss"] = pss;
      guarded(out, "lc", [&] { out["lc_v"] = projSpline(bspline::linearCombination(cs, ss)); });
      guarded(out, "lci", [&] {
        out["lci_v"] = projSpline(bspline::linearCombination(cs.begin(), cs.end(), ss.begin(), ss.end()));
      });
      json after = json::array();
      for (const auto &s : ss) after.push_back(projSpline(s));
      out["ss_after"] = after;
      out["cs_after"] = encVec(cs);
    }
  });
}

Reg r1("SplNew", splNew<VH_SCALAR>), r2("SplEval", splEval<VH_SCALAR>), r3("SplUn", splUn<VH_SCALAR>),
    r4("SplBin", splBin<VH_SCALAR>), r5("SplLin", splLin<VH_SCALAR>);
}  // namespace
}  // namespace verif
