// Handler for interpolation (interpolation/interpolation.h) with the exact
// Gauss solver: C12, interpolation part of C11.
#include <bspline/interpolation/interpolation.h>

#include "gauss.h"
#include "vh_common.h"

namespace verif {
namespace {
#ifndef VH_SCALAR
#define VH_SCALAR Rat
#endif

template <typename T>
void interpH(const json &in, json &out) {
  using namespace bspline::interpolation;
  const json &jx = in.at("x");
  const Grid<T> g = mkGrid<T>(jx.at("g"));
  // named, non-const operands: what a caller holds must be left as it was (C14)
  Support<T> x = mkSupport<T>(jx, g);
  out["x"] = projSupport(x);
  std::vector<T> y = decVec<T>(in.at("y"));
  const bool dflt = in.at("dflt").get<int>() != 0;
  withOrder(in.at("order").get<size_t>(), [&](auto O) {
    constexpr size_t o = decltype(O)::value;
    if constexpr (o >= 1 && o <= 4) {
      std::array<Boundary<T>, o - 1> bcs;
      const json &jb = in.at("bcs");
      for (size_t i = 0; i < o - 1; i++) {
        bcs[i] = Boundary<T>{jb.at(i).at("node").get<int>() == 0 ? Node::FIRST : Node::LAST, jb.at(i).at("d").get<size_t>(),
                             Codec<T>::dec(jb.at(i).at("v"))};
      }
      solverLog().reset();
      guarded(out, "out", [&] {
        if (dflt)
          out["res"] = projSpline(interpolate<T, o, GaussSolver<T>>(x, y));
        else
          out["res"] = projSpline(interpolate<T, o, GaussSolver<T>>(x, y, bcs));
      });
      const SolverLog &l = solverLog();
      out["lg"] = json{{"constructed", l.constructed}, {"size", l.size}, {"solves", l.solves}, {"oor", l.outOfRange},
                       {"was", l.writeAfterSolve}, {"rbs", l.readBeforeSolve}, {"m", l.mAccess}, {"b", l.bAccess}, {"x", l.xAccess}};
      out["x_after"] = projSupport(x);
      out["y_after"] = encVec(y);
      json ba = json::array();
      for (const auto &b : bcs) ba.push_back(json{{"node", b.node == Node::FIRST ? 0 : 1}, {"d", b.derivative}, {"v", Codec<T>::enc(b.value)}});
      out["bcs_after"] = std::move(ba);
    }
  });
}
Reg r1("Interp", interpH<VH_SCALAR>);
}  // namespace
}  // namespace verif
