// C19: every core template of the library and the generic interpolation
// routine are explicitly instantiated / odr-used with the scalar C19_SCALAR.
// With C19_SCALAR = verif::Rat (the archetype that offers only the documented
// operations) a compile error here is a violation of C19; the same unit with
// double must compile, otherwise the tree does not compile at all.
#include <bspline/Core.h>
#include <bspline/interpolation/interpolation.h>

#include "gauss.h"
#include "rat.h"

#include <limits>

// "no numeric_limits": for the archetype every value-returning member of
// std::numeric_limits is deleted, so a library template that asks for
// max(), epsilon(), infinity(), ... of its scalar does not compile here.
// (Without this the primary template would quietly hand out T().)
// is_specialized stays readable and false: branching on it is legitimate.
namespace std {
template <>
class numeric_limits<verif::Rat> {
 public:
  static constexpr bool is_specialized = false;
  static verif::Rat min() = delete;
  static verif::Rat max() = delete;
  static verif::Rat lowest() = delete;
  static verif::Rat epsilon() = delete;
  static verif::Rat round_error() = delete;
  static verif::Rat infinity() = delete;
  static verif::Rat quiet_NaN() = delete;
  static verif::Rat signaling_NaN() = delete;
  static verif::Rat denorm_min() = delete;
};
template <>
class numeric_limits<const verif::Rat> : public numeric_limits<verif::Rat> {};
}  // namespace std

#ifndef C19_SCALAR
#define C19_SCALAR verif::Rat
#endif
using T = C19_SCALAR;
using namespace bspline;
using namespace bspline::operators;
using namespace bspline::integration;

template class bspline::support::Grid<T>;
template class bspline::support::Support<T>;
template class bspline::Spline<T, 0>;
template class bspline::Spline<T, 1>;
template class bspline::Spline<T, 2>;
template class bspline::Spline<T, 3>;
template class bspline::BSplineGenerator<T>;
template class bspline::operators::SplineOperator<T, 1>;

static T mk(int n, int d) { return static_cast<T>(n) / static_cast<T>(d); }

int c19_use_everything() {
  std::vector<T> pts{mk(0, 1), mk(1, 2), mk(2, 1), mk(7, 2)};
  const Grid<T> g(pts);
  const Grid<T> g2(pts.begin(), pts.end());
  bool ok = (g == g2) && !(g != g2) && g.findElement(mk(2, 1)) == 2;
  const auto whole = Support<T>::createWholeGrid(g);
  const Support<T> w(g, 1, 4);
  ok = ok && whole.calcUnion(w) == whole && whole.calcIntersection(w) == w && w.at(0) == mk(1, 2);
  Spline<T, 1> a(whole, {{mk(1, 1), mk(2, 1)}, {mk(0, 1), mk(1, 3)}, {mk(-1, 1), mk(1, 1)}});
  Spline<T, 2> b(w, {{mk(1, 1), mk(2, 1), mk(1, 2)}, {mk(0, 1), mk(1, 3), mk(3, 1)}});
  auto s1 = a + b;
  auto s2 = a - b;
  auto s3 = a * b;
  auto s4 = a * mk(3, 1);
  auto s5 = mk(3, 1) * a / mk(2, 1);
  auto s6 = -a;
  b += a;
  b -= a;
  b *= mk(2, 1);
  b /= mk(2, 1);
  Spline<T, 3> c(g);
  c = a;
  ok = ok && !s1.isZero() && s2.checkOverlap(s3) && (s4 == s4) && !(s5 != s5) && s6(mk(1, 1)) == -a(mk(1, 1));
  ok = ok && a.front() == mk(0, 1) && a.back() == mk(7, 2) && c(mk(1, 3)) == a(mk(1, 3));
  std::vector<Spline<T, 1>> ss{a, a};
  std::vector<T> cs{mk(1, 2), mk(1, 3)};
  auto lc = linearCombination(cs, ss);
  auto lc2 = linearCombination(cs.begin(), cs.end(), ss.begin(), ss.end());
  ok = ok && lc == lc2;
  // generator, both routes, free function
  const std::vector<T> knots{mk(0, 1), mk(0, 1), mk(1, 2), mk(2, 1), mk(7, 2), mk(7, 2)};
  const BSplineGenerator<T> gen(knots);
  const BSplineGenerator<T> gen2(knots, g);
  auto basis = gen.template generateBSplines<3>();
  auto basis2 = gen2.template generateBSplines<2>();
  auto basis3 = generateBSplines<1>(knots);
  ok = ok && basis.size() == 2 && basis2.size() == 3 && basis3.size() == 4 && gen.getGrid() == g;
  // operators
  auto e1 = IdentityOperator{} * a;
  auto e2 = X<2>{} * a;
  auto e3 = Dx<1>{} * b;
  auto e4 = (mk(1, 2) * Dx<2>{} + X<1>{} * Dx<1>{} - SplineOperator{a}) * b;
  auto e5 = (2 * X<1>{} - mk(1, 3) + 3 - Dx<1>{} / 2 + (-(X<1>{} * mk(1, 2))) / mk(1, 3)) * a;
  auto e6 = (mk(2, 1) - X<1>{} + (1 - Dx<1>{}) + (X<1>{} + 1) + (mk(1, 2) + X<1>{})) * a;
  const auto sm = ScalarMultiplication{mk(1, 2)};
  auto e7 = sm * a;
  ok = ok && !e1.isZero() && !e2.isZero() && (e3 == e3) && (e4 == e4) && (e5 == e5) && (e6 == e6) && (e7 == e7);
  // forms
  const ScalarProduct sp{};
  const BilinearForm bf1{Dx<1>{}, mk(-1, 2) * (SplineOperator{a} * Dx<1>{})};
  const BilinearForm bf2{X<1>{}};
  const BilinearForm bf3{};
  const LinearForm lf1{X<2>{} * Dx<1>{}};
  const LinearForm lf2{};
  ok = ok && sp(a, b) == bf3.evaluate(a, b) && bf1(a, b) == bf1(a, b) && bf2(a, a) == bf2.evaluate(a, a) &&
       lf1(a) == lf1.evaluate(a) && lf2(b) == lf2.evaluate(b);
  // generic interpolation with an exact solver, default and explicit boundaries
  using namespace bspline::interpolation;
  std::vector<T> y{mk(1, 1), mk(0, 1), mk(2, 1), mk(-1, 1)};
  auto i1 = interpolate<T, 1, verif::GaussSolver<T>>(whole, y);
  auto i3 = interpolate<T, 3, verif::GaussSolver<T>>(whole, y);
  std::array<Boundary<T>, 1> bc{Boundary<T>{Node::LAST, 1, mk(1, 2)}};
  auto i2 = interpolate<T, 2, verif::GaussSolver<T>>(whole, y, bc);
  ok = ok && i1(mk(2, 1)) == mk(2, 1) && i3(mk(1, 2)) == mk(0, 1) && i2(mk(7, 2)) == mk(-1, 1);
  return ok ? 0 : 1;
}

#ifdef C19_MAIN
int main() { return c19_use_everything(); }
#endif
