// Exact scalar archetype for the conformance harness.
//
// `Rat` offers exactly the operations include/bspline/Spline.h:1-19 documents
// for the scalar type T, and nothing else that the library could pick up by
// accident:
//   * default / copy construction and assignment
//   * construction from an integer through static_cast  (explicit, from any
//     built-in integer type, value preserving)
//   * + - * /  and  += -= *= /=
//   * unary minus
//   * == != < <= > >=
// There is NO implicit conversion from or to built-in numbers, no <cmath>
// overload, no std::numeric_limits specialisation and no stream operator.
// The harness reads and writes values through the static side door
// Rat::make / num() / den(), which library code never mentions.
//
// Values are normalised fractions of __int128.  An arithmetic overflow or a
// division by zero does not abort: it throws RatError, which is not a
// BSplineException and is therefore logged by the harness as a foreign
// exception (an event no contract explains).
//
// -DVERIF_RAT_SELFCHECK: a second archetype of the same arithmetic that is NOT
// trivially copyable.  Every object remembers its own address (set by every
// constructor, kept by assignment) and every operation first checks it, so an
// object that was relocated or created bitwise (memcpy / memmove / memset /
// realloc of scalars, reads of raw storage) raises RatError.  Stands for the
// user types of C19 that own resources (multiprecision numbers).
#ifndef VERIF_RAT_H
#define VERIF_RAT_H

#include <cstdint>
#include <stdexcept>
#include <type_traits>

namespace verif {

struct RatError : public std::runtime_error {
  using std::runtime_error::runtime_error;
};

class Rat {
 public:
  using I = __int128;

 private:
  I _n;
  I _d;
#ifdef VERIF_RAT_SELFCHECK
  const Rat *_self = this;
  void chk() const {
    if (_self != this) throw RatError("Rat: object relocated or created bitwise / not alive");
  }
#else
  void chk() const {}
#endif

  static I gcd(I a, I b) {
    if (a < 0) a = -a;
    if (b < 0) b = -b;
    while (b != 0) {
      I t = a % b;
      a = b;
      b = t;
    }
    return a;
  }
  static I mul(I a, I b) {
    I r;
    if (__builtin_mul_overflow(a, b, &r)) throw RatError("Rat overflow");
    return r;
  }
  static I add(I a, I b) {
    I r;
    if (__builtin_add_overflow(a, b, &r)) throw RatError("Rat overflow");
    return r;
  }
  void norm() {
    if (_d == 0) throw RatError("Rat division by zero");
    if (_d < 0) {
      _n = -_n;
      _d = -_d;
    }
    if (_n == 0) {
      _d = 1;
      return;
    }
    const I g = gcd(_n, _d);
    _n /= g;
    _d /= g;
  }
  struct Raw {};
  Rat(I n, I d, Raw) : _n(n), _d(d) { norm(); }

 public:
  // The documented requirements ask for default construction but say nothing about the
  // VALUE of a default-constructed scalar (built-in types leave it indeterminate, T{} is 0
  // only for some types).  The archetype therefore default-constructs to a conspicuous
  // sentinel, not to zero: library code that reads a default-constructed scalar instead
  // of static_cast<T>(0) produces visibly wrong exact results.
  Rat() : _n(7777), _d(1) {}
  // "construction from an integer through static_cast": every built-in integer
  // type, value preserving (the library converts int, size_t and whatever integer
  // type a caller uses as an operator scalar); nothing else converts
  template <typename Int, std::enable_if_t<std::is_integral_v<Int> && !std::is_same_v<Int, bool>, int> = 0>
  explicit Rat(Int i) : _n(static_cast<I>(i)), _d(1) {}
#ifdef VERIF_RAT_SELFCHECK
  Rat(const Rat &o) : _n(o._n), _d(o._d), _self(this) { o.chk(); }
  Rat &operator=(const Rat &o) {
    o.chk();
    chk();
    _n = o._n;
    _d = o._d;
    return *this;
  }
  ~Rat() { _self = nullptr; }
#else
  Rat(const Rat &) = default;
  Rat &operator=(const Rat &) = default;
#endif

  // side door for the harness only
  static Rat make(long long n, long long d) { return Rat(n, d, Raw{}); }
  I num() const {
    chk();
    return _n;
  }
  I den() const {
    chk();
    return _d;
  }

  Rat &operator+=(const Rat &o) {
    chk();
    o.chk();
    const I g = gcd(_d, o._d);
    const I da = _d / g, db = o._d / g;
    _n = add(mul(_n, db), mul(o._n, da));
    _d = mul(da, o._d);
    norm();
    return *this;
  }
  Rat &operator-=(const Rat &o) { return *this += (-o); }
  Rat &operator*=(const Rat &o) {
    chk();
    o.chk();
    const I g1 = gcd(_n, o._d), g2 = gcd(o._n, _d);
    const I n1 = g1 ? _n / g1 : _n, d2 = g1 ? o._d / g1 : o._d;
    const I n2 = g2 ? o._n / g2 : o._n, d1 = g2 ? _d / g2 : _d;
    _n = mul(n1, n2);
    _d = mul(d1, d2);
    norm();
    return *this;
  }
  Rat &operator/=(const Rat &o) {
    chk();
    o.chk();
    if (o._n == 0) throw RatError("Rat division by zero");
    Rat inv(o._d, o._n, Raw{});
    return *this *= inv;
  }
  Rat operator-() const {
    Rat r(*this);
    r._n = -r._n;
    return r;
  }
  friend Rat operator+(Rat a, const Rat &b) { return a += b; }
  friend Rat operator-(Rat a, const Rat &b) { return a -= b; }
  friend Rat operator*(Rat a, const Rat &b) { return a *= b; }
  friend Rat operator/(Rat a, const Rat &b) { return a /= b; }

  friend bool operator==(const Rat &a, const Rat &b) {
    a.chk();
    b.chk();
    return a._n == b._n && a._d == b._d;
  }
  friend bool operator!=(const Rat &a, const Rat &b) { return !(a == b); }
  friend bool operator<(const Rat &a, const Rat &b) {
    // compare a.n*b.d with b.n*a.d
    a.chk();
    b.chk();
    return mul(a._n, b._d) < mul(b._n, a._d);
  }
  friend bool operator>(const Rat &a, const Rat &b) { return b < a; }
  friend bool operator<=(const Rat &a, const Rat &b) { return !(b < a); }
  friend bool operator>=(const Rat &a, const Rat &b) { return !(a < b); }
};

}  // namespace verif
#endif
