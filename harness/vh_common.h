// Conformance harness core: JSON <-> library objects, guarded calls, handler registry.
//
// One ndjson line in  = one case (an action of the specification with
//                        self-contained arguments).
// One ndjson line out = the event observed at the return of the public call:
//                        the projection of the *real* operand objects, the
//                        outcome (ok / BSplineException code / foreign
//                        exception) and the projection of the result.
// The projection uses public accessors only.
#ifndef VERIF_VH_COMMON_H
#define VERIF_VH_COMMON_H

#include <bspline/Core.h>

#include <cstdint>
#include <cstdio>
#include <memory>
#include <mutex>
#include <functional>
#include <map>
#include <nlohmann/json.hpp>
#include <optional>
#include <string>
#include <type_traits>
#include <vector>

#include "rat.h"

namespace verif {
using json = nlohmann::json;
using bspline::Spline;
using bspline::exceptions::BSplineException;
using bspline::exceptions::ErrorCode;
using bspline::support::Grid;
using bspline::support::Support;

// ---------------------------------------------------------------- registry
using Handler = std::function<void(const json &, json &)>;
inline std::map<std::string, Handler> &registry() {
  static std::map<std::string, Handler> r;
  return r;
}
struct Reg {
  Reg(const char *name, Handler h) { registry()[name] = std::move(h); }
};

// ---------------------------------------------------------------- scalars
// A value that does not fit TLC's 32-bit integers is replaced by 0 and the
// event is flagged "big":1, which no contract accepts.
inline bool &bigFlag() {
  static thread_local bool b = false;
  return b;
}

template <typename T, typename = void>
struct Codec;

template <>
struct Codec<Rat> {
  static constexpr const char *name = "rat";
  static Rat dec(const json &j) {
    return Rat::make(j.at(0).get<long long>(), j.at(1).get<long long>());
  }
  static json enc(const Rat &r) {
    const __int128 lim = (static_cast<__int128>(1) << 31) - 1;
    if (r.num() > lim || r.num() < -lim || r.den() > lim) {
      bigFlag() = true;
      return json::array({0, 1});
    }
    return json::array({static_cast<long long>(r.num()), static_cast<long long>(r.den())});
  }
};

template <typename F>
struct Codec<F, std::enable_if_t<std::is_floating_point_v<F>>> {
  static constexpr const char *name = std::is_same_v<F, float>    ? "float"
                                      : std::is_same_v<F, double> ? "double"
                                                                  : "ldouble";
  // inputs are dyadic rationals: n/d is exact
  static F dec(const json &j) {
    return static_cast<F>(j.at(0).get<long long>()) / static_cast<F>(j.at(1).get<long long>());
  }
  // floating results are not sent to TLC; they are judged by the harness
  // against the exact value and magnitude the specification supplied
  static json enc(const F &v) {
    char buf[64];
    std::snprintf(buf, sizeof buf, "%La", static_cast<long double>(v));  // bit-exact
    return std::string(buf);
  }
};

template <typename T>
json encVec(const std::vector<T> &v) {
  json a = json::array();
  for (const auto &x : v) a.push_back(Codec<T>::enc(x));
  return a;
}
template <typename T>
std::vector<T> decVec(const json &j) {
  std::vector<T> v;
  v.reserve(j.size());
  for (const auto &x : j) v.push_back(Codec<T>::dec(x));
  return v;
}

// ---------------------------------------------------------------- orders
constexpr size_t MAXORD = 25;
template <typename F>
void withOrder(size_t o, F &&f) {
  switch (o) {
#define VH_CASE(N) \
  case N:          \
    f(std::integral_constant<size_t, N>{}); \
    break;
    VH_CASE(0) VH_CASE(1) VH_CASE(2) VH_CASE(3) VH_CASE(4)
    VH_CASE(5) VH_CASE(6) VH_CASE(7) VH_CASE(8) VH_CASE(9)
    VH_CASE(10) VH_CASE(11) VH_CASE(12) VH_CASE(13) VH_CASE(14) VH_CASE(15) VH_CASE(16) VH_CASE(17)
    VH_CASE(18) VH_CASE(19) VH_CASE(20) VH_CASE(21) VH_CASE(22) VH_CASE(23) VH_CASE(24) VH_CASE(25)
#undef VH_CASE
    default:
      throw std::runtime_error("harness: unsupported order");
  }
}

// ---------------------------------------------------------------- projections
template <typename T>
json projGrid(const Grid<T> &g) {
  json a = json::array();
  for (size_t i = 0; i < g.size(); i++) a.push_back(Codec<T>::enc(g[i]));
  return a;
}
template <typename T>
json projSupport(const Support<T> &s) {
  json o;
  o["g"] = projGrid(s.getGrid());
  o["s"] = s.getStartIndex();
  o["e"] = s.getEndIndex();
  return o;
}
template <typename T, size_t O>
json projSpline(const Spline<T, O> &p) {
  json o = projSupport(p.getSupport());
  o["o"] = O;
  json c = json::array();
  for (const auto &iv : p.getCoefficients()) {
    json t = json::array();
    for (const auto &x : iv) t.push_back(Codec<T>::enc(x));
    c.push_back(std::move(t));
  }
  o["c"] = std::move(c);
  return o;
}

// ---------------------------------------------------------------- construction
template <typename T>
Grid<T> mkGrid(const json &pts) {
  return Grid<T>(decVec<T>(pts));
}
template <typename T>
Support<T> mkSupport(const json &j, const Grid<T> &g) {
  return Support<T>(g, j.at("s").get<size_t>(), j.at("e").get<size_t>());
}
template <typename T, size_t O>
std::vector<std::array<T, O + 1>> decCoeffs(const json &c) {
  std::vector<std::array<T, O + 1>> v;
  v.reserve(c.size());
  for (const auto &iv : c) {
    std::array<T, O + 1> a;
    if (iv.size() != O + 1) throw std::runtime_error("harness: coefficient tuple length");
    for (size_t k = 0; k < O + 1; k++) a[k] = Codec<T>::dec(iv[k]);
    v.push_back(a);
  }
  return v;
}
template <typename T, size_t O>
Spline<T, O> mkSpline(const json &j, const Grid<T> &g) {
  return Spline<T, O>(mkSupport<T>(j, g), decCoeffs<T, O>(j.at("c")));
}


// ---------------------------------------------------------------- how operands are held
// Sequential harness: the operands of a call are named NON-CONST objects, as
// most callers hold them, so an entry point that takes a forwarding reference,
// has a non-const overload or moves from what it was given shows up in the
// "_after" projections (C14).  Threaded builds (-DVH_CONST_OPERANDS) share the
// operand objects between threads and therefore hold them const.
#ifdef VH_CONST_OPERANDS
#define VH_OPERAND const
#else
#define VH_OPERAND
#endif

// ---------------------------------------------------------------- shared operands (threaded mode, C18)
// In threaded mode the operand objects of all cases are built once by the main
// thread and then only read: every handler obtains its operands as pointers to
// these shared const objects, so several threads evaluate, copy, combine,
// transform and integrate the SAME grid/spline objects at the same time.
// mode 0: off (every case constructs its own operands)   1: fill   2: frozen
// mode 3: filled by the running threads themselves (construction under a lock, the
//         FIRST use of every shared object then happens in several threads at once)
struct OperandCache {
  int mode = 0;
  std::recursive_mutex mu;
  std::map<std::string, std::shared_ptr<const void>> objs;
  std::vector<std::function<std::pair<long, long>()>> gridAudits;  // (use_count, expected) per cached grid
  std::map<const void *, long> refs;  // grid storage -> number of cached objects referring to it
};
inline OperandCache &opCache() {
  static OperandCache c;
  return c;
}
template <typename X, typename Make>
std::shared_ptr<const X> cached(const std::string &key, Make &&make) {
  OperandCache &c = opCache();
  if (c.mode == 0) return std::shared_ptr<const X>(make());
  if (c.mode == 3) {
    std::lock_guard<std::recursive_mutex> lk(c.mu);
    auto it3 = c.objs.find(key);
    if (it3 != c.objs.end()) return std::static_pointer_cast<const X>(it3->second);
    std::shared_ptr<const X> p3(make());  // a refused construction throws here, for every thread alike
    c.objs[key] = p3;
    return p3;
  }
  auto it = c.objs.find(key);
  if (it != c.objs.end()) return std::static_pointer_cast<const X>(it->second);
  // not built in the fill pass (its construction was refused there): construct it locally, it will be refused again
  if (c.mode == 2) return std::shared_ptr<const X>(make());
  std::shared_ptr<const X> p(make());
  c.objs[key] = p;
  return p;
}
// tag: equal points with a different tag are DISTINCT shared instances (the library must
// treat them as one grid; comparing them takes the element-wise path)
template <typename T>
std::shared_ptr<const Grid<T>> opGrid(const json &pts, int tag = 0) {
  return cached<Grid<T>>(std::string("G") + std::to_string(tag) + Codec<T>::name + pts.dump(), [&] {
    auto *g = new Grid<T>(decVec<T>(pts));
    if (opCache().mode == 1 || opCache().mode == 3) {
      opCache().refs[g->getData().get()] += 1;
      opCache().gridAudits.push_back([g] {
        const void *blk = g->getData().get();
        const long uc = static_cast<long>(g->getData().use_count()) - 1;  // minus the temporary getData() returns
        return std::make_pair(uc, opCache().refs[blk]);
      });
    }
    return g;
  });
}
template <typename T, size_t O>
std::shared_ptr<const Spline<T, O>> opSpline(const json &j, const Grid<T> &g, int tag = 0) {
  return cached<Spline<T, O>>(std::string("S") + std::to_string(tag) + Codec<T>::name + std::to_string(O) + j.dump(), [&] {
    auto *s = new Spline<T, O>(mkSpline<T, O>(j, g));
    if (opCache().mode == 1 || opCache().mode == 3) opCache().refs[s->getSupport().getGrid().getData().get()] += 1;
    return s;
  });
}

// the operand behind a handle from opGrid/opSpline (created non-const by `new`, see above)
template <typename X>
VH_OPERAND X &operandRef(const std::shared_ptr<const X> &p) {
  return const_cast<VH_OPERAND X &>(*p);
}

// ---------------------------------------------------------------- guarded calls
inline const char *codeName(ErrorCode c) {
  switch (c) {
    case ErrorCode::DIFFERING_GRIDS: return "DIFFERING_GRIDS";
    case ErrorCode::INCONSISTENT_DATA: return "INCONSISTENT_DATA";
    case ErrorCode::MISSING_DATA: return "MISSING_DATA";
    case ErrorCode::INVALID_ACCESS: return "INVALID_ACCESS";
    case ErrorCode::UNDETERMINED: return "UNDETERMINED";
  }
  return "UNKNOWN";
}

// Runs f; records the outcome under out[key] / out[key+"_code"].
// Returns true iff f returned normally.
template <typename F>
bool guarded(json &out, const std::string &key, F &&f) {
  try {
    f();
    out[key] = "ok";
    out[key + "_code"] = "none";
    return true;
  } catch (const BSplineException &e) {
    out[key] = "throw";
    out[key + "_code"] = codeName(e.getErrorCode());
    // what() must follow the documented format (checked by the contract)
    const std::string w = e.what();
    const std::string pre = std::string("BSplineException (code: ") + codeName(e.getErrorCode()) + "): ";
    out[key + "_what"] = (w.rfind(pre, 0) == 0 && w.size() > pre.size()) ? 1 : 0;
  } catch (const RatError &e) {
    out[key] = "foreign";
    out[key + "_code"] = e.what();
  } catch (const std::exception &e) {
    out[key] = "foreign";
    out[key + "_code"] = std::string("std::exception: ") + e.what();
  } catch (...) {
    out[key] = "foreign";
    out[key + "_code"] = "unknown";
  }
  return false;
}

inline json optIdx(const std::optional<size_t> &o) {
  // indices are small in every accepted result; anything else is flagged
  if (!o) return -1;
  if (*o > 1000000) {
    bigFlag() = true;
    return 0;
  }
  return static_cast<long long>(*o);
}
inline json idx(size_t v) { return optIdx(std::optional<size_t>(v)); }

// index argument of the real code from (i, top): top = 0 -> i ; top = 1 -> 2^64 - i
inline size_t realIndex(const json &in) {
  const size_t i = in.at("i").get<size_t>();
  return in.value("top", 0) ? static_cast<size_t>(0) - i : i;
}

}  // namespace verif
#endif
