// Operator expressions are template instantiations, so every AST the
// specification enumerates is compiled as the C++ expression it spells
// (tools/gen_expr.py writes one struct per AST into generated translation
// units).  This header holds the generic handlers those units instantiate.
#ifndef VERIF_VH_OPS_H
#define VERIF_VH_OPS_H

#include <bspline/Core.h>
#include <memory>

#include "vh_common.h"

namespace verif {

#ifndef VH_SCALAR
#define VH_SCALAR Rat
#endif

inline std::map<std::string, Handler> &applyRegistry() {
  static std::map<std::string, Handler> r;
  return r;
}
inline std::map<std::string, Handler> &bfRegistry() {
  static std::map<std::string, Handler> r;
  return r;
}

// scalar literal of the spline's data type
template <typename T>
T sc(long long n, long long d) {
  return Codec<T>::dec(json::array({n, d}));
}

// the factor splines the Spl leaves of an expression refer to.  They are real,
// named objects (lvalues): an operator built from them must hold its own copy,
// so that a later in-place change of the factor does not change the operator
// (C14); mutateAll() makes that change.
template <typename T>
struct Factors {
  const json &jfs;
  std::vector<std::unique_ptr<Grid<T>>> grids;  // one Grid instance per factor
  mutable std::vector<std::shared_ptr<void>> objs;
  mutable std::vector<std::function<void()>> mutators;
  Factors(const json &in, const Grid<T> &operandGrid) : jfs(in.at("fs")) {
    const bool share = in.value("fshare", 1) != 0;
    for (const auto &jf : jfs) {
      if (share)
        grids.push_back(std::make_unique<Grid<T>>(operandGrid));
      else
        grids.push_back(std::make_unique<Grid<T>>(decVec<T>(jf.at("g"))));
    }
    objs.resize(jfs.size());
    mutators.resize(jfs.size());
  }
  template <size_t O>
  const Spline<T, O> &get(size_t slot) const {
    if (!objs.at(slot)) {
      auto p = std::make_shared<Spline<T, O>>(mkSpline<T, O>(jfs.at(slot), *grids.at(slot)));
      objs[slot] = p;
      mutators[slot] = [p] { *p *= static_cast<T>(3); };
    }
    return *std::static_pointer_cast<Spline<T, O>>(objs[slot]);
  }
  void mutateAll() const {
    for (auto &m : mutators)
      if (m) m();
  }
  json proj() const {
    json a = json::array();
    for (size_t i = 0; i < jfs.size(); i++) {
      withOrder(jfs[i].at("o").get<size_t>(), [&](auto O) {
        constexpr size_t o = decltype(O)::value;
        if constexpr (o <= 3) a.push_back(projSpline(mkSpline<T, o>(jfs[i], *grids.at(i))));
      });
    }
    return a;
  }
};

#ifdef VH_FP
}  // namespace verif
#include "vh_fpops.h"
namespace verif {
#else
template <typename E, typename T>
void applyH(const json &in, json &out) {
  const json &ja = in.at("a");
  const auto gp = opGrid<T>(ja.at("g"));
  auto &g = operandRef(gp);
  const Factors<T> fs(in, g);
  out["fs"] = fs.proj();
  withOrder(ja.at("o").get<size_t>(), [&](auto O) {
    constexpr size_t o = decltype(O)::value;
    // E::hi: the expression also occurs with operands of order 7 .. 24 (tag "hi")
    if constexpr (o <= 3 || (E::hi && o >= 7 && o <= 24)) {
      const auto ap = opSpline<T, o>(ja, g);
      auto &a = operandRef(ap);
      out["a"] = projSpline(a);
      // in threaded mode the operator and the form are shared const objects too
      const std::string ekey = std::string(Codec<T>::name) + in.at("ast").dump() + in.at("fs").dump();
      guarded(out, "app", [&] {
        using ExprT = decltype(E::template make<T>(fs));
        const auto ep = cached<ExprT>("E" + ekey, [&] { return new ExprT(E::template make<T>(fs)); });
        out["app_v"] = projSpline((*ep) * a);
      });
      if constexpr (o <= 3) guarded(out, "lf", [&] {   // (the exact value of a form on an order-24 spline does not fit TLC's integers)
        using FormT = decltype(bspline::integration::LinearForm{E::template make<T>(fs)});
        const auto lp = cached<FormT>("L" + ekey, [&] { return new FormT(E::template make<T>(fs)); });
        out["lf_v"] = Codec<T>::enc((*lp)(a));
      });
      // an operator is an independent value: changing a factor spline in place afterwards
      // must not change what the operator does (C14)
      guarded(out, "indep", [&] {
        const Factors<T> fs2(in, g);
        const auto e2 = E::template make<T>(fs2);
        const auto r1 = e2 * a;
        fs2.mutateAll();
        const auto r2 = e2 * a;
        out["indep_same"] = (r1 == r2) ? 1 : 0;
      });
      out["a_after"] = projSpline(a);
    }
  });
}

template <typename E1, typename E2, typename T>
void bfH(const json &in, json &out) {
  const json &ja = in.at("a"), &jb = in.at("b");
  const auto gp = opGrid<T>(ja.at("g"));
  auto &g = operandRef(gp);
  const bool bshare = in.value("bshare", 1) != 0;
  const auto gbp = bshare ? gp : opGrid<T>(jb.at("g"));
  auto &gb = operandRef(gbp);
  const Factors<T> fs(in, g);
  out["fs"] = fs.proj();
  withOrder(ja.at("o").get<size_t>(), [&](auto OA) {
    withOrder(jb.at("o").get<size_t>(), [&](auto OB) {
      constexpr size_t oa = decltype(OA)::value, ob = decltype(OB)::value;
      if constexpr (oa <= 3 && ob <= 3) {
        const auto ap = opSpline<T, oa>(ja, g);
        const auto bp = opSpline<T, ob>(jb, gb);
        auto &a = operandRef(ap);
        // sameobj: the very same object is passed for both arguments (bf(a, a))
        auto *pb = &operandRef(bp);
        if constexpr (oa == ob) {
          if (in.value("sameobj", 0) != 0) pb = &a;
        }
        auto &b = *pb;
        out["a"] = projSpline(a);
        out["b"] = projSpline(b);
        guarded(out, "bf", [&] {
          using FormT = decltype(bspline::integration::BilinearForm{E1::template make<T>(fs), E2::template make<T>(fs)});
          const auto fp = cached<FormT>(std::string("B") + Codec<T>::name + in.at("e1").dump() + in.at("e2").dump() + in.at("fs").dump(),
                                        [&] { return new FormT(E1::template make<T>(fs), E2::template make<T>(fs)); });
          out["bf_v"] = Codec<T>::enc((*fp)(a, b));
        });
        // the other constructors / guides: BilinearForm{O2} (identity on the left), BilinearForm{}, ScalarProduct
        if (in.at("e1").at("k") == "Id") {
          guarded(out, "bf1", [&] {
            const bspline::integration::BilinearForm f{E2::template make<T>(fs)};
            out["bf1_v"] = Codec<T>::enc(f.evaluate(a, b));
          });
          if (in.at("e2").at("k") == "Id") {
            guarded(out, "sp", [&] {
              const bspline::integration::ScalarProduct sp{};
              const bspline::integration::BilinearForm dflt{};
              out["sp_v"] = Codec<T>::enc(sp(a, b));
              out["dflt_v"] = Codec<T>::enc(dflt(a, b));
            });
          }
        }
        guarded(out, "sw", [&] {
          const bspline::integration::BilinearForm f{E2::template make<T>(fs), E1::template make<T>(fs)};
          out["sw_v"] = Codec<T>::enc(f.evaluate(b, a));
        });
        guarded(out, "lfp", [&] {
          const auto pa = E1::template make<T>(fs) * a;
          const auto pb = E2::template make<T>(fs) * b;
          const bspline::integration::LinearForm<bspline::operators::IdentityOperator> lf{};
          out["lfp_v"] = Codec<T>::enc(lf(pa * pb));
        });
        out["a_after"] = projSpline(a);
        out["b_after"] = projSpline(b);
      }
    });
  });
}

template <typename E>
struct RegApply {
  explicit RegApply(const char *key) { applyRegistry()[key] = applyH<E, VH_SCALAR>; }
};
template <typename E1, typename E2>
struct RegBF {
  explicit RegBF(const char *key) { bfRegistry()[key] = bfH<E1, E2, VH_SCALAR>; }
};
#endif  // VH_FP

}  // namespace verif
#endif
