// Dispatch of OpApply / OpBF cases to the generated expression handlers.
#include "vh_ops.h"

namespace verif {
namespace {
void opApply(const json &in, json &out) {
  const std::string key = in.at("ast").dump();
  auto it = applyRegistry().find(key);
  if (it == applyRegistry().end()) {
    out["harness_error"] = "expression not compiled: " + key;
    return;
  }
  it->second(in, out);
}
void opBF(const json &in, json &out) {
  const std::string key = in.at("e1").dump() + "|" + in.at("e2").dump();
  auto it = bfRegistry().find(key);
  if (it == bfRegistry().end()) {
    out["harness_error"] = "expression pair not compiled: " + key;
    return;
  }
  it->second(in, out);
}
Reg r1("OpApply", opApply), r2("OpBF", opBF);
}  // namespace
}  // namespace verif
