// Handlers for the grid / support family (Grid.h, Support.h): C13, C11, C09.
#include "vh_common.h"

namespace verif {
namespace {

template <typename T>
void ratOutcome(json &out, const std::string &key, const std::function<T()> &f) {
  T v{};
  if (guarded(out, key, [&] { v = f(); })) out[key + "_v"] = Codec<T>::enc(v);
}
inline void idxOutcome(json &out, const std::string &key, const std::function<size_t()> &f) {
  size_t v = 0;
  if (guarded(out, key, [&] { v = f(); })) out[key + "_v"] = idx(v);
}

// window bounds may be given near the top of the index type: (s, stop) etc.
inline size_t bound(const json &in, const char *k, const char *ktop) {
  const size_t v = in.at(k).get<size_t>();
  return in.value(ktop, 0) ? static_cast<size_t>(0) - v : v;
}

template <typename T>
void gridNew(const json &in, json &out) {
  std::optional<Grid<T>> g;
  const int route = in.value("route", 0);
  const auto pts = decVec<T>(in.at("pts"));
  if (guarded(out, "out", [&] {
        switch (route) {
          case 0: g.emplace(pts); break;                                  // std::vector
          case 1: g.emplace(pts.begin(), pts.end()); break;               // iterators
          case 2: g.emplace(std::make_shared<const std::vector<T>>(pts)); break;  // shared_ptr
          default: g.emplace(pts); break;
        }
      })) {
    out["res"] = projGrid(*g);
    // the accessors describe the same tuple
    out["size"] = idx(g->size());
    out["empty"] = g->empty() ? 1 : 0;
    out["front"] = Codec<T>::enc(g->front());
    out["back"] = Codec<T>::enc(g->back());
    json it = json::array();
    for (const auto &x : *g) it.push_back(Codec<T>::enc(x));
    out["iter"] = it;
    const Grid<T> copy(*g);
    out["copy_eq"] = (copy == *g && !(copy != *g)) ? 1 : 0;
    out["copy_shares"] = (copy.getData().get() == g->getData().get()) ? 1 : 0;
  }
}

template <typename T>
void gridFind(const json &in, json &out) {
  VH_OPERAND Grid<T> g = mkGrid<T>(in.at("g"));
  const T x = Codec<T>::dec(in.at("x"));
  out["g"] = projGrid(g);
  idxOutcome(out, "find", [&] { return g.findElement(x); });
  out["g_after"] = projGrid(g);
}

template <typename T>
void gridAt(const json &in, json &out) {
  VH_OPERAND Grid<T> g = mkGrid<T>(in.at("g"));
  const size_t i = realIndex(in);
  out["g"] = projGrid(g);
  ratOutcome<T>(out, "at", [&] { return g.at(i); });
  if (i < g.size()) out["sub_v"] = Codec<T>::enc(g[i]);  // unchecked accessor, in range only
  out["g_after"] = projGrid(g);
}

template <typename T>
void supNew(const json &in, json &out) {
  VH_OPERAND Grid<T> g = mkGrid<T>(in.at("g"));
  const size_t s = bound(in, "s", "stop"), e = bound(in, "e", "etop");
  std::optional<Support<T>> S;
  if (guarded(out, "out", [&] { S.emplace(g, s, e); })) out["res"] = projSupport(*S);
  // the two factories
  const auto E = Support<T>::createEmpty(g);
  const auto W = Support<T>::createWholeGrid(g);
  out["mkempty"] = projSupport(E);
  out["mkwhole"] = projSupport(W);
  out["g_after"] = projGrid(g);
}

template <typename T>
void supRead(const json &in, json &out) {
  VH_OPERAND Grid<T> g = mkGrid<T>(in.at("a").at("g"));
  VH_OPERAND Support<T> S = mkSupport<T>(in.at("a"), g);
  out["a"] = projSupport(S);
  out["size"] = idx(S.size());
  out["empty"] = S.empty() ? 1 : 0;
  out["hasiv"] = S.containsIntervals() ? 1 : 0;
  out["nint"] = idx(S.numberOfIntervals());
  ratOutcome<T>(out, "front", [&] { return S.front(); });
  ratOutcome<T>(out, "back", [&] { return S.back(); });
  json it = json::array();
  for (auto p = S.begin(); p != S.end(); ++p) it.push_back(Codec<T>::enc(*p));
  out["iter"] = it;
  out["dist"] = static_cast<long long>(S.end() - S.begin());
  json sub = json::array();
  for (size_t i = 0; i < S.size(); i++) sub.push_back(Codec<T>::enc(S[i]));
  out["sub"] = sub;
  out["grid_eq"] = (S.getGrid() == g) ? 1 : 0;
  out["grid_shared"] = (S.getGrid().getData().get() == g.getData().get()) ? 1 : 0;
  out["self_eq"] = (S == S && !(S != S)) ? 1 : 0;
  out["a_after"] = projSupport(S);
}

template <typename T>
void supIdx(const json &in, json &out) {
  VH_OPERAND Grid<T> g = mkGrid<T>(in.at("a").at("g"));
  VH_OPERAND Support<T> S = mkSupport<T>(in.at("a"), g);
  const size_t i = realIndex(in);
  out["a"] = projSupport(S);
  out["rel"] = optIdx(S.relativeFromAbsolute(i));
  out["iv"] = optIdx(S.intervalIndexFromAbsolute(i));
  idxOutcome(out, "abs", [&] { return S.absoluteFromRelative(i); });
  ratOutcome<T>(out, "at", [&] { return S.at(i); });
  if (i < S.size()) out["sub_v"] = Codec<T>::enc(S[i]);
  out["a_after"] = projSupport(S);
}

template <typename T>
void supBin(const json &in, json &out) {
  VH_OPERAND Grid<T> ga = mkGrid<T>(in.at("a").at("g"));
  const bool share = in.value("share", 0) != 0;
  VH_OPERAND Grid<T> gb = share ? ga : mkGrid<T>(in.at("b").at("g"));
  VH_OPERAND Support<T> A = mkSupport<T>(in.at("a"), ga);
  VH_OPERAND Support<T> B = mkSupport<T>(in.at("b"), gb);
  out["a"] = projSupport(A);
  out["b"] = projSupport(B);
  std::optional<Support<T>> U, X;
  if (guarded(out, "un", [&] { U.emplace(A.calcUnion(B)); })) out["un_v"] = projSupport(*U);
  if (guarded(out, "in", [&] { X.emplace(A.calcIntersection(B)); })) out["in_v"] = projSupport(*X);
  out["eq"] = (A == B) ? 1 : 0;
  out["ne"] = (A != B) ? 1 : 0;
  out["same"] = A.hasSameGrid(B) ? 1 : 0;
  // arguments unchanged
  out["a_after"] = projSupport(A);
  out["b_after"] = projSupport(B);
}

template <typename T>
void supTri(const json &in, json &out) {
  VH_OPERAND Grid<T> g = mkGrid<T>(in.at("a").at("g"));
  VH_OPERAND Support<T> A = mkSupport<T>(in.at("a"), g), B = mkSupport<T>(in.at("b"), g),
                        C = mkSupport<T>(in.at("c"), g);
  out["a"] = projSupport(A);
  out["b"] = projSupport(B);
  out["c"] = projSupport(C);
  out["u_l"] = projSupport(A.calcUnion(B).calcUnion(C));
  out["u_r"] = projSupport(A.calcUnion(B.calcUnion(C)));
  out["i_l"] = projSupport(A.calcIntersection(B).calcIntersection(C));
  out["i_r"] = projSupport(A.calcIntersection(B.calcIntersection(C)));
  out["a_after"] = projSupport(A);
  out["b_after"] = projSupport(B);
  out["c_after"] = projSupport(C);
}

#ifndef VH_SCALAR
#define VH_SCALAR Rat
#endif
Reg r1("GridNew", gridNew<VH_SCALAR>), r2("GridFind", gridFind<VH_SCALAR>), r3("GridAt", gridAt<VH_SCALAR>),
    r4("SupNew", supNew<VH_SCALAR>), r5("SupRead", supRead<VH_SCALAR>), r6("SupIdx", supIdx<VH_SCALAR>),
    r7("SupBin", supBin<VH_SCALAR>), r8("SupTri", supTri<VH_SCALAR>);
}  // namespace
}  // namespace verif
