// Lifecycle harness: executes TLC-generated histories (command scripts) on a
// pool of real objects and logs, at the return of every public call, the
// outcome and the projection of EVERY slot whose projection changed (the
// harness diffs mechanically; TLC decides whether the delta is allowed).
//   vh_life <scripts.ndjson> <trace.ndjson>
// {"op":"Reset"} starts a new history with an empty pool.
#include <cstdio>
#include <fstream>
#include <iostream>
#include <memory>
#include <set>
#include <variant>

#include "vh_common.h"

using namespace verif;
#ifndef VH_SCALAR
#define VH_SCALAR Rat
#endif
using T = VH_SCALAR;

constexpr size_t NSLOT = 8;
constexpr size_t PMAX = 6;  // pool holds splines of order 0..6

using Obj = std::variant<std::monostate, Grid<T>, Support<T>, Spline<T, 0>, Spline<T, 1>, Spline<T, 2>, Spline<T, 3>,
                         Spline<T, 4>, Spline<T, 5>, Spline<T, 6>>;
using Slot = std::unique_ptr<Obj>;

template <typename X>
struct is_spl : std::false_type {};
template <size_t O>
struct is_spl<Spline<T, O>> : std::true_type {};

struct Pool {
  std::vector<Slot> s;
  std::map<const void *, int> blk;                    // grid storage -> small id
  std::map<int, std::vector<T>> blkPts;               // contents at first sight
  std::vector<json> last;                             // last logged projection per slot
  int nextBlk = 0;
  Pool() { reset(); }
  void reset() {
    s.clear();
    for (size_t i = 0; i < NSLOT; i++) s.push_back(std::make_unique<Obj>());
    blk.clear();
    blkPts.clear();
    nextBlk = 0;
    last.assign(NSLOT, json{{"k", "null"}});
  }
  Obj &at(const json &c, const char *k) {
    const size_t i = c.at(k).get<size_t>();
    if (i < 1 || i > NSLOT) throw std::runtime_error("harness: slot out of range");
    return *s[i - 1];
  }
  template <typename X, typename... A>
  void put(const json &c, A &&...a) {
    const size_t i = c.at("dst").get<size_t>();
    auto n = std::make_unique<Obj>(std::in_place_type<X>, std::forward<A>(a)...);  // construct first,
    s[i - 1] = std::move(n);                                                       // then replace the slot
  }
  int blockOf(const Grid<T> &g) {
    const void *p = g.getData().get();
    auto it = blk.find(p);
    if (it == blk.end()) {
      const int id = ++nextBlk;
      blk[p] = id;
      blkPts[id] = *g.getData();
      return id;
    }
    return it->second;
  }
  json proj(Obj &o) {
    return std::visit(
        [&](auto &x) -> json {
          using X = std::decay_t<decltype(x)>;
          if constexpr (std::is_same_v<X, std::monostate>) {
            return json{{"k", "null"}};
          } else if constexpr (std::is_same_v<X, Grid<T>>) {
            json j;
            j["k"] = "grid";
            j["g"] = projGrid(x);
            j["blk"] = blockOf(x);
            return j;
          } else if constexpr (std::is_same_v<X, Support<T>>) {
            json j = projSupport(x);
            j["k"] = "sup";
            j["blk"] = blockOf(x.getGrid());
            return j;
          } else {
            json j = projSpline(x);
            j["k"] = "spl";
            j["blk"] = blockOf(x.getSupport().getGrid());
            return j;
          }
        },
        o);
  }
};

static const Grid<T> *gridOf(Obj &o) {
  return std::visit(
      [](auto &x) -> const Grid<T> * {
        using X = std::decay_t<decltype(x)>;
        if constexpr (std::is_same_v<X, std::monostate>) return nullptr;
        else if constexpr (std::is_same_v<X, Grid<T>>) return &x;
        else if constexpr (std::is_same_v<X, Support<T>>) return &x.getGrid();
        else return &x.getSupport().getGrid();
      },
      o);
}

template <typename F>
void onSpline(Obj &o, F &&f) {
  std::visit(
      [&](auto &x) {
        using X = std::decay_t<decltype(x)>;
        if constexpr (is_spl<X>::value) f(x);
        else throw std::runtime_error("harness: slot does not hold a spline");
      },
      o);
}
template <typename F>
void onSplines(Obj &a, Obj &b, F &&f) {
  onSpline(a, [&](auto &x) { onSpline(b, [&](auto &y) { f(x, y); }); });
}

static void exec(Pool &P, const json &c, json &ev) {
  const std::string op = c.at("op").get<std::string>();
  guarded(ev, "out", [&] {
    if (op == "GridNew") {
      P.put<Grid<T>>(c, decVec<T>(c.at("pts")));
    } else if (op == "SupNew") {
      const Grid<T> &g = std::get<Grid<T>>(P.at(c, "grid"));
      P.put<Support<T>>(c, g, c.at("s").get<size_t>(), c.at("e").get<size_t>());
    } else if (op == "SplNew") {
      const Grid<T> &g = std::get<Grid<T>>(P.at(c, "grid"));
      withOrder(c.at("o").get<size_t>(), [&](auto O) {
        constexpr size_t o = decltype(O)::value;
        if constexpr (o <= 3) {
          Support<T> S(g, c.at("s").get<size_t>(), c.at("e").get<size_t>());
          P.put<Spline<T, o>>(c, std::move(S), decCoeffs<T, o>(c.at("c")));
        }
      });
    } else if (op == "Copy") {
      std::visit(
          [&](auto &x) {
            using X = std::decay_t<decltype(x)>;
            if constexpr (!std::is_same_v<X, std::monostate>) P.put<X>(c, static_cast<const X &>(x));
          },
          P.at(c, "src"));
    } else if (op == "Move") {
      std::visit(
          [&](auto &x) {
            using X = std::decay_t<decltype(x)>;
            if constexpr (std::is_same_v<X, Support<T>> || is_spl<X>::value) P.put<X>(c, std::move(x));
            else throw std::runtime_error("harness: Move on non-movable slot");
          },
          P.at(c, "src"));
    } else if (op == "CopyAssign" || op == "MoveAssign") {
      Obj &d = P.at(c, "dst");
      Obj &s = P.at(c, "src");
      if (d.index() != s.index()) throw std::runtime_error("harness: assignment between different types");
      std::visit(
          [&](auto &x) {
            using X = std::decay_t<decltype(x)>;
            if constexpr (!std::is_same_v<X, std::monostate>) {
              X &src = std::get<X>(s);
              if (op == "CopyAssign") {
                const X &csrc = src;
                x = csrc;  // includes self-assignment when dst == src
              } else {
                if constexpr (std::is_same_v<X, Grid<T>>) throw std::runtime_error("harness: Grid is not movable");
                else x = std::move(src);
              }
            }
          },
          d);
    } else if (op == "AssignLower") {
      onSplines(P.at(c, "dst"), P.at(c, "src"), [&](auto &d, auto &s) {
        constexpr size_t od = std::decay_t<decltype(d)>::spline_order, os = std::decay_t<decltype(s)>::spline_order;
        if constexpr (os < od && os <= 3) d = s;
        else throw std::runtime_error("harness: AssignLower orders");
      });
    } else if (op == "AddAssign" || op == "SubAssign") {
      onSplines(P.at(c, "dst"), P.at(c, "src"), [&](auto &d, auto &s) {
        constexpr size_t od = std::decay_t<decltype(d)>::spline_order, os = std::decay_t<decltype(s)>::spline_order;
        if constexpr (os <= od && os <= 3) {
          // rv = 1: the source is handed over as an rvalue (d += std::move(s))
          if (c.value("rv", 0) == 1) {
            if (op == "AddAssign") d += std::move(s);
            else d -= std::move(s);
          } else if (op == "AddAssign") d += s;
          else d -= s;
        } else throw std::runtime_error("harness: += orders");
      });
    } else if (op == "ScaleAssign" || op == "DivAssign") {
      const T k = Codec<T>::dec(c.at("kk"));
      onSpline(P.at(c, "dst"), [&](auto &d) {
        if (op == "ScaleAssign") d *= k;
        else d /= k;
      });
    } else if (op == "Add" || op == "Sub" || op == "Mul") {
      onSplines(P.at(c, "a"), P.at(c, "b"), [&](auto &a, auto &b) {
        constexpr size_t oa = std::decay_t<decltype(a)>::spline_order, ob = std::decay_t<decltype(b)>::spline_order;
        if constexpr (oa <= 3 && ob <= 3) {
          // rv = 0: named (non-const) operands; rv = 1 / 2: the left / right operand as an rvalue
          const int rv = c.value("rv", 0);
          using R = Spline<T, std::max(oa, ob)>;
          if (rv == 1) {
            if (op == "Add") P.put<R>(c, std::move(a) + b);
            else if (op == "Sub") P.put<R>(c, std::move(a) - b);
            else P.put<Spline<T, oa + ob>>(c, std::move(a) * b);
          } else if (rv == 2) {
            if (op == "Add") P.put<R>(c, a + std::move(b));
            else if (op == "Sub") P.put<R>(c, a - std::move(b));
            else P.put<Spline<T, oa + ob>>(c, a * std::move(b));
          } else {
            if (op == "Add") P.put<R>(c, a + b);
            else if (op == "Sub") P.put<R>(c, a - b);
            else P.put<Spline<T, oa + ob>>(c, a * b);
          }
        } else throw std::runtime_error("harness: binary op orders");
      });
    } else if (op == "Scale" || op == "Neg") {
      onSpline(P.at(c, "a"), [&](auto &a) {
        using X = std::decay_t<decltype(a)>;
        const int rv = c.value("rv", 0);
        if (op == "Neg") {
          if (rv == 1) P.put<X>(c, -std::move(a));
          else P.put<X>(c, -a);
        } else {
          const T k = Codec<T>::dec(c.at("kk"));
          if (rv == 1) P.put<X>(c, std::move(a) * k);
          else if (rv == 2) P.put<X>(c, k * std::move(a));
          else if (rv == 3) P.put<X>(c, std::move(a) / (static_cast<T>(1) / k));
          else P.put<X>(c, a * k);
        }
      });
    } else if (op == "Apply") {
      const std::string w = c.at("which").get<std::string>();
      onSpline(P.at(c, "a"), [&](auto &a) {
        constexpr size_t oa = std::decay_t<decltype(a)>::spline_order;
        using namespace bspline::operators;
        const bool rv = c.value("rv", 0) == 1;  // the operand as an rvalue
        if (w == "Id") P.put<Spline<T, oa>>(c, rv ? IdentityOperator{} * std::move(a) : IdentityOperator{} * a);
        else if (w == "Dx1") P.put<Spline<T, (oa > 1 ? oa - 1 : 0)>>(c, rv ? Dx<1>{} * std::move(a) : Dx<1>{} * a);
        else if (w == "Dx2") P.put<Spline<T, (oa > 2 ? oa - 2 : 0)>>(c, rv ? Dx<2>{} * std::move(a) : Dx<2>{} * a);
        else if (w == "X1") {
          if constexpr (oa + 1 <= PMAX) P.put<Spline<T, oa + 1>>(c, rv ? X<1>{} * std::move(a) : X<1>{} * a);
          else throw std::runtime_error("harness: order too large");
        } else throw std::runtime_error("harness: unknown operator");
      });
    } else if (op == "Union" || op == "Inter") {
      Support<T> &a = std::get<Support<T>>(P.at(c, "a"));
      Support<T> &b = std::get<Support<T>>(P.at(c, "b"));
      const int rv = c.value("rv", 0);
      if (rv == 1) {
        if (op == "Union") P.put<Support<T>>(c, std::move(a).calcUnion(b));
        else P.put<Support<T>>(c, std::move(a).calcIntersection(b));
      } else if (rv == 2) {
        if (op == "Union") P.put<Support<T>>(c, a.calcUnion(std::move(b)));
        else P.put<Support<T>>(c, a.calcIntersection(std::move(b)));
      } else if (op == "Union") P.put<Support<T>>(c, a.calcUnion(b));
      else P.put<Support<T>>(c, a.calcIntersection(b));
    } else if (op == "GetSupport") {
      onSpline(P.at(c, "src"), [&](auto &s) { P.put<Support<T>>(c, s.getSupport()); });
    } else if (op == "GetGrid") {
      const Grid<T> *g = gridOf(P.at(c, "src"));
      if (!g) throw std::runtime_error("harness: GetGrid of null");
      P.put<Grid<T>>(c, *g);
    } else if (op == "Destroy") {
      P.s[c.at("dst").get<size_t>() - 1] = std::make_unique<Obj>();
    } else if (op == "LinComb") {
      const std::vector<T> cs = decVec<T>(c.at("cs"));
      const size_t first = c.at("srcs").at(0).get<size_t>();
      onSpline(*P.s[first - 1], [&](auto &s0) {
        using X = std::decay_t<decltype(s0)>;
        std::vector<X> ss;
        for (const auto &js : c.at("srcs")) ss.push_back(std::get<X>(*P.s[js.get<size_t>() - 1]));  // same order by construction
        P.put<X>(c, bspline::linearCombination(cs, ss));
      });
    } else if (op == "BF") {
      const std::string w = c.at("which").get<std::string>();
      onSplines(P.at(c, "a"), P.at(c, "b"), [&](auto &a, auto &b) {
        constexpr size_t oa = std::decay_t<decltype(a)>::spline_order, ob = std::decay_t<decltype(b)>::spline_order;
        if constexpr (oa <= 3 && ob <= 3) {
          using namespace bspline::operators;
          using namespace bspline::integration;
          const auto &ca = a;
          const auto &cb = b;
          if (w == "sp") ev["val"] = Codec<T>::enc(ScalarProduct{}(ca, cb));
          else if (w == "dx") ev["val"] = Codec<T>::enc(BilinearForm{Dx<1>{}, Dx<1>{}}(ca, cb));
          else ev["val"] = Codec<T>::enc(BilinearForm{X<1>{}, Dx<1>{}}(ca, cb));
        } else throw std::runtime_error("harness: BF orders");
      });
    } else if (op == "Eval") {
      onSpline(P.at(c, "src"), [&](auto &s) {
        const auto &cs = s;
        ev["val"] = Codec<T>::enc(cs(Codec<T>::dec(c.at("x"))));
      });
    } else {
      throw std::runtime_error("harness: unknown command " + op);
    }
  });
}

int main(int argc, char **argv) {
  if (argc < 3) return 2;
  std::ifstream in(argv[1]);
  FILE *out = std::fopen(argv[2], "a");
  if (!in || !out) return 2;
  Pool P;
  std::string line;
  while (std::getline(in, line)) {
    if (line.empty()) continue;
    json ev;
    try {
      const json c = json::parse(line);
      ev = c;
      bigFlag() = false;
      if (c.at("op") == "Reset") {
        P.reset();
      } else {
        try {
          exec(P, c, ev);
        } catch (const std::exception &e) {
          ev["harness_error"] = e.what();
        }
      }
      // delta of all slots
      json delta = json::array();
      for (size_t i = 0; i < NSLOT; i++) {
        json pj = P.proj(*P.s[i]);
        if (pj != P.last[i]) {
          delta.push_back(json::array({i + 1, pj}));
          P.last[i] = pj;
        }
      }
      ev["delta"] = delta;
      // heap observations: per referenced block the use_count and the number of
      // live slots referring to it; contents of a block never change
      std::map<int, long> refs, uc;
      int heapChanged = 0;
      for (size_t i = 0; i < NSLOT; i++) {
        const Grid<T> *g = gridOf(*P.s[i]);
        if (!g) continue;
        const int b = P.blockOf(*g);
        refs[b]++;
        uc[b] = g->getData().use_count() - 1;  // minus the temporary returned by getData()
        if (P.blkPts[b] != *g->getData()) heapChanged = 1;
      }
      json rc = json::array();
      for (auto &kv : refs) rc.push_back(json::array({kv.first, uc[kv.first], kv.second}));
      // a block no live slot refers to any more has been freed: forget its address, the
      // allocator may hand the same address to a new grid
      for (auto it = P.blk.begin(); it != P.blk.end();) {
        if (refs.find(it->second) == refs.end()) {
          P.blkPts.erase(it->second);
          it = P.blk.erase(it);
        } else {
          ++it;
        }
      }
      ev["rc"] = rc;
      ev["heap_changed"] = heapChanged;
      // coefficient storage of distinct live splines must be distinct
      std::set<const void *> seen;
      int alias = 0;
      for (size_t i = 0; i < NSLOT; i++) {
        std::visit(
            [&](auto &x) {
              using X = std::decay_t<decltype(x)>;
              if constexpr (is_spl<X>::value) {
                if (!x.getCoefficients().empty()) {
                  if (!seen.insert(x.getCoefficients().data()).second) alias = 1;
                }
              }
            },
            *P.s[i]);
      }
      ev["alias"] = alias;
      ev["big"] = bigFlag() ? 1 : 0;
    } catch (const std::exception &e) {
      ev = json::object();
      ev["op"] = "HarnessError";
      ev["harness_error"] = std::string("parse: ") + e.what();
    }
    const std::string s = ev.dump();
    std::fwrite(s.data(), 1, s.size(), out);
    std::fputc('\n', out);
    std::fflush(out);
  }
  std::fclose(out);
  return 0;
}
