// vh: the conformance harness' command interpreter.
//   vh <cases.ndjson> <trace.ndjson> [first-line-to-run (0-based)]
// Executes every case with the real library and appends one event line per
// case.  Lines are written and flushed one at a time, so after a crash the
// driver knows which case was running (the first one without an event).
#include <csignal>
#include <cstdio>
#include <cstdlib>
#include <exception>
#include <fstream>
#include <iostream>
#include <atomic>
#include <thread>
#include <vector>
#include <unistd.h>

#include "vh_common.h"

using namespace verif;

static void onTerminate() {
  // std::terminate (e.g. an exception escaping a noexcept function): make the
  // death visible to the driver with a distinctive exit code
  _exit(97);
}

static std::string runCase(const std::string &line) {
  json ev;
  try {
    const json c = json::parse(line);
    ev = c;
    const std::string op = c.at("op").get<std::string>();
    auto it = registry().find(op);
    if (it == registry().end()) {
      ev["harness_error"] = "unknown op";
    } else {
      bigFlag() = false;
      try {
        it->second(c, ev);
      } catch (const std::exception &e) {
        ev["harness_error"] = std::string("handler: ") + e.what();
      }
      ev["big"] = bigFlag() ? 1 : 0;
    }
  } catch (const std::exception &e) {
    ev = json::object();
    ev["op"] = "HarnessError";
    ev["harness_error"] = std::string("parse: ") + e.what();
  }
  return ev.dump();
}

// vh --threads N <cases> <outprefix>:  C18.  Pass 1 (main thread) runs every
// case once, building the shared const operand objects (-> <outprefix>.seq).
// Pass 2: N threads run ALL cases at the same time on those shared objects,
// each from a different starting point (-> <outprefix>.t<k>).  After the join
// the use_count of every shared grid block is compared with the number of
// cached objects that refer to it (-> <outprefix>.quiescent).
// sense-reversing spin barrier (no C++20 here)
struct SpinBarrier {
  explicit SpinBarrier(int n) : n_(n) {}
  void wait() {
    const int gen = gen_.load(std::memory_order_acquire);
    if (count_.fetch_add(1, std::memory_order_acq_rel) + 1 == n_) {
      count_.store(0, std::memory_order_relaxed);
      gen_.store(gen + 1, std::memory_order_release);
    } else {
      while (gen_.load(std::memory_order_acquire) == gen) std::this_thread::yield();
    }
  }
  const int n_;
  std::atomic<int> count_{0}, gen_{0};
};

// lockstep = true: all threads work in phases separated by a barrier; in phase i
// thread t runs case (i + t) mod n, i.e. NEIGHBOURING cases (in the specification's
// enumeration order these mostly share the operation and template instantiation
// and differ in the data) are executed at the very same time.  lockstep = false:
// every thread sweeps all cases on its own, starting at a different offset.
//
// schedule "fresh": no filling pass.  The sequential log comes from a run in
// which every case builds its own operands (made AFTER the threaded pass); all threads run the SAME case
// in every phase and build the shared objects themselves (under a lock), so the
// first use of every shared object - when lazily initialised state would be
// filled - happens in all threads at once.  The use counts after the join are
// compared with those of the same procedure run by a single thread.
static int freshMain(int nthreads, const std::vector<std::string> &cases, const std::string &prefix,
                     void (*dump)(const std::string &, const std::vector<std::string> &)) {
  // The threaded pass comes FIRST in the life of this process: state that the library keeps per process
  // (function-local statics, lazily grown tables) is cold when the threads meet it.
  auto pass = [&](int nt, std::vector<std::vector<std::string>> &outs) {
    opCache().objs.clear();
    opCache().gridAudits.clear();
    opCache().refs.clear();
    opCache().mode = 3;
    outs.assign(nt, std::vector<std::string>(cases.size()));
    SpinBarrier barrier(nt);
    std::vector<std::thread> ths;
    for (int t = 0; t < nt; t++) {
      ths.emplace_back([&, t] {
        for (size_t i = 0; i < cases.size(); i++) {
          barrier.wait();
          outs[t][i] = runCase(cases[i]);
        }
      });
    }
    for (auto &th : ths) th.join();
    std::vector<long> counts;
    for (auto &audit : opCache().gridAudits) counts.push_back(audit().first);
    return counts;
  };
  std::vector<std::vector<std::string>> outs, ref;
  const std::vector<long> got = pass(nthreads, outs);
  for (int t = 0; t < nthreads; t++) dump(prefix + ".t" + std::to_string(t), outs[t]);
  const std::vector<long> want = pass(1, ref);
  opCache().objs.clear();
  opCache().gridAudits.clear();
  opCache().refs.clear();
  opCache().mode = 0;
  std::vector<std::string> seq;
  for (const auto &c : cases) seq.push_back(runCase(c));
  dump(prefix + ".seq", seq);
  json q = json::array();
  if (got.size() != want.size()) q.push_back(json::array({static_cast<long>(got.size()), static_cast<long>(want.size())}));
  for (size_t i = 0; i < got.size() && i < want.size(); i++) q.push_back(json::array({got[i], want[i]}));
  dump(prefix + ".quiescent", {q.dump()});
  return 0;
}

static void dumpLines(const std::string &path, const std::vector<std::string> &lines) {
  FILE *f = std::fopen(path.c_str(), "w");
  for (const auto &s : lines) {
    std::fwrite(s.data(), 1, s.size(), f);
    std::fputc('\n', f);
  }
  std::fclose(f);
}

static int threadedMain(int nthreads, const char *casesPath, const std::string &prefix, bool lockstep, bool fresh = false) {
#ifndef VH_CONST_OPERANDS
  std::fprintf(stderr, "vh: threaded mode needs a build with -DVH_CONST_OPERANDS (operands are shared between threads)\n");
  return 3;
#endif
  std::ifstream in(casesPath);
  if (!in) return 2;
  std::vector<std::string> cases;
  for (std::string l; std::getline(in, l);)
    if (!l.empty()) cases.push_back(l);
  if (fresh) return freshMain(nthreads, cases, prefix, dumpLines);
  auto dump = [](const std::string &path, const std::vector<std::string> &lines) {
    FILE *f = std::fopen(path.c_str(), "w");
    for (const auto &s : lines) {
      std::fwrite(s.data(), 1, s.size(), f);
      std::fputc('\n', f);
    }
    std::fclose(f);
  };
  opCache().mode = 1;
  std::vector<std::string> seq;
  for (const auto &c : cases) seq.push_back(runCase(c));
  dump(prefix + ".seq", seq);
  opCache().mode = 2;
  // handles held by the shared objects themselves (operands, operators, forms)
  // before any thread runs: the count every block must return to after the join
  std::vector<long> baseline;
  for (auto &audit : opCache().gridAudits) baseline.push_back(audit().first);
  std::vector<std::vector<std::string>> outs(nthreads, std::vector<std::string>(cases.size()));
  std::vector<std::thread> ths;
  SpinBarrier barrier(nthreads);
  for (int t = 0; t < nthreads; t++) {
    ths.emplace_back([&, t] {
      const size_t n = cases.size(), start = lockstep ? static_cast<size_t>(t) % n : n * t / nthreads;
      for (size_t k = 0; k < n; k++) {
        const size_t i = (start + k) % n;
        if (lockstep) barrier.wait();
        outs[t][i] = runCase(cases[i]);
        if (!lockstep && (k & 7) == static_cast<size_t>(t & 7)) std::this_thread::yield();
      }
    });
  }
  for (auto &th : ths) th.join();
  for (int t = 0; t < nthreads; t++) dump(prefix + ".t" + std::to_string(t), outs[t]);
  json q = json::array();
  for (size_t i = 0; i < opCache().gridAudits.size(); i++) {
    const auto p = opCache().gridAudits[i]();
    q.push_back(json::array({p.first, baseline[i]}));
  }
  dump(prefix + ".quiescent", {q.dump()});
  return 0;
}

int main(int argc, char **argv) {
  if (argc >= 5 && std::string(argv[1]) == "--threads") {
    std::set_terminate(onTerminate);
    return threadedMain(std::atoi(argv[2]), argv[3], argv[4], argc >= 6 && std::string(argv[5]) == "lockstep",
                        argc >= 6 && std::string(argv[5]) == "fresh");
  }
  if (argc < 3) {
    std::fprintf(stderr, "usage: vh cases.ndjson trace.ndjson [skip]\n");
    return 2;
  }
  std::set_terminate(onTerminate);
  std::ifstream in(argv[1]);
  if (!in) {
    std::fprintf(stderr, "vh: cannot read %s\n", argv[1]);
    return 2;
  }
  const long skip = argc > 3 ? std::atol(argv[3]) : 0;
  FILE *out = std::fopen(argv[2], "a");
  if (!out) return 2;
  std::string line;
  long n = 0;
  while (std::getline(in, line)) {
    if (n++ < skip) continue;
    if (line.empty()) continue;
    const std::string s = runCase(line);
    std::fwrite(s.data(), 1, s.size(), out);
    std::fputc('\n', out);
    std::fflush(out);
  }
  std::fclose(out);
  return 0;
}
