// vh: the conformance harness' command interpreter.
//   vh <cases.ndjson> <trace.ndjson> [first-line-to-run (0-based)]
// Executes every case with the real library and appends one event line per
// case.  Lines are written and flushed one at a time, so after a crash the
// driver knows which case was running (the first one without an event).
#include <csignal>
#include <cstdio>
#include <cstdlib>
#include <exception>
#include <fstream>
#include <iostream>
#include <unistd.h>

#include "vh_common.h"

using namespace verif;

static void onTerminate() {
  // std::terminate (e.g. an exception escaping a noexcept function): make the
  // death visible to the driver with a distinctive exit code
  _exit(97);
}

int main(int argc, char **argv) {
  if (argc < 3) {
    std::fprintf(stderr, "usage: vh cases.ndjson trace.ndjson [skip]\n");
    return 2;
  }
  std::set_terminate(onTerminate);
  std::ifstream in(argv[1]);
  if (!in) {
    std::fprintf(stderr, "vh: cannot read %s\n", argv[1]);
    return 2;
  }
  const long skip = argc > 3 ? std::atol(argv[3]) : 0;
  FILE *out = std::fopen(argv[2], "a");
  if (!out) return 2;
  std::string line;
  long n = 0;
  while (std::getline(in, line)) {
    if (n++ < skip) continue;
    if (line.empty()) continue;
    json ev;
    try {
      const json c = json::parse(line);
      ev = c;  // echo the case; handlers overwrite operands with projections
      const std::string op = c.at("op").get<std::string>();
      auto it = registry().find(op);
      if (it == registry().end()) {
        ev["harness_error"] = "unknown op";
      } else {
        bigFlag() = false;
        try {
          it->second(c, ev);
        } catch (const std::exception &e) {
          ev["harness_error"] = std::string("handler: ") + e.what();
        }
        ev["big"] = bigFlag() ? 1 : 0;
      }
    } catch (const std::exception &e) {
      ev = json::object();
      ev["op"] = "HarnessError";
      ev["harness_error"] = std::string("parse: ") + e.what();
    }
    const std::string s = ev.dump();
    std::fwrite(s.data(), 1, s.size(), out);
    std::fputc('\n', out);
    std::fflush(out);
  }
  std::fclose(out);
  return 0;
}
