// Handlers for the shipped example solvers (examples/*.cpp): C20.
// The repository's own example translation units are linked in; the inputs
// are enumerated by TLC (spec/MC_Ex.tla); the contracts of the entry points
// are evaluated here with the tolerances of DESIGN.md (C20) and judged by the
// specification on the recorded verdicts.
#include <cmath>

#include "diffusion.h"
#include "harmonic-oscillator.h"
#include "hydrogen.h"
#include "spline-potential.h"
#include "vh_common.h"

namespace verif {
namespace {
using bspline::examples::data_t;

double rat(const json &r) { return static_cast<double>(r.at(0).get<long long>()) / static_cast<double>(r.at(1).get<long long>()); }

void exDiffusion(const json &in, json &out) {
  using namespace bspline::examples::diffusion;
  std::vector<data_t> pts;
  for (const auto &p : in.at("pts")) pts.push_back(rat(p));
  std::vector<std::array<data_t, 1>> d1, d2;
  const double k = std::ldexp(rat(in.at("scale")), -in.value("sexp", 0));
  for (const auto &d : in.at("D")) {
    d1.push_back({rat(d)});
    d2.push_back({k * rat(d)});
  }
  const double a = rat(in.at("start")), b = rat(in.at("end"));
  const double scale = std::max({1.0, std::fabs(a), std::fabs(b)});
  const double tol = 1e-8 * scale;
  guarded(out, "out", [&] {
    const Grid<data_t> g(pts);
    const auto whole = Support<data_t>::createWholeGrid(g);
    const auto c1 = solveDiffusionSteadyState(DSpline(whole, d1), a, b);
    const auto c2 = solveDiffusionSteadyState(DSpline(whole, d2), a, b);
    const DSpline D(whole, d1);
    // boundary values attained
    const double e0 = std::fabs(c1(pts.front()) - a), e1 = std::fabs(c1(pts.back()) - b);
    out["attain_err"] = std::max(e0, e1);
    out["attain"] = (e0 <= tol && e1 <= tol) ? 1 : 0;
    // invariance under D -> k D, probed on a fine set of points
    double inv = 0, line = 0;
    bool constD = true;
    for (size_t i = 1; i < d1.size(); i++) constD = constD && d1[i][0] == d1[0][0];
    for (size_t i = 0; i + 1 < pts.size(); i++) {
      for (int s = 0; s <= 8; s++) {
        const double x = pts[i] + (pts[i + 1] - pts[i]) * s / 8.0;
        inv = std::max(inv, std::fabs(c1(x) - c2(x)));
        const double lin = a + (b - a) * (x - pts.front()) / (pts.back() - pts.front());
        line = std::max(line, std::fabs(c1(x) - lin));
      }
    }
    out["inv_err"] = inv;
    out["scale_inv"] = inv <= tol ? 1 : 0;
    out["const_d"] = constD ? 1 : 0;
    out["line_err"] = line;
    out["line"] = (!constD || line <= tol) ? 1 : 0;
    out["support_whole"] = (c1.getSupport() == whole) ? 1 : 0;
  });
}

void exPotential(const json &in, json &out) {
  using namespace bspline::examples::spline_potential;
  std::vector<data_t> pts, vals;
  for (const auto &p : in.at("pts")) pts.push_back(rat(p));
  for (const auto &p : in.at("vals")) vals.push_back(rat(p));
  const double c = rat(in.at("shift"));
  auto lookup = [&](double shift) {
    return [&pts, &vals, shift](data_t x) -> data_t {
      size_t best = 0;
      for (size_t i = 1; i < pts.size(); i++)
        if (std::fabs(pts[i] - x) < std::fabs(pts[best] - x)) best = i;
      return vals[best] + shift;
    };
  };
  guarded(out, "out", [&] {
    const auto v1 = interpolateFunction(pts, lookup(0.0));
    const auto v2 = interpolateFunction(pts, lookup(c));
    // the interpolant reproduces the data (C12 through the bundled dense solver)
    double ierr = 0;
    for (size_t i = 0; i < pts.size(); i++) ierr = std::max(ierr, std::fabs(v1(pts[i]) - vals[i]));
    out["interp_err"] = ierr;
    const auto e1 = solveSEWithSplinePotential(v1);
    const auto e2 = solveSEWithSplinePotential(v2);
    double dev = 0, mag = 1;
    for (size_t i = 0; i < e1.size() && i < e2.size(); i++) {
      dev = std::max(dev, std::fabs(e2[i].energy - e1[i].energy - c));
      mag = std::max({mag, std::fabs(e1[i].energy), std::fabs(e2[i].energy)});
    }
    out["count"] = e1.size();
    out["shift_err"] = dev;
    out["shift_ok"] = (e1.size() == 10 && e2.size() == 10 && dev <= 1e-8 * mag) ? 1 : 0;
    out["interp_ok"] = ierr <= 1e-9 * mag ? 1 : 0;
    bool sorted = true;
    for (size_t i = 1; i < e1.size(); i++) sorted = sorted && e1[i - 1].energy <= e1[i].energy;
    out["sorted"] = sorted ? 1 : 0;
  });
}

// a potential given directly as a cubic spline: a constant well of the given depth
// on the sub-window [s, e) of its grid (s = e = 0: the empty zero potential), and
// the same potential plus the constant c on the whole grid
void exPotentialWin(const json &in, json &out) {
  using namespace bspline::examples::spline_potential;
  using bspline::examples::PSpline;
  std::vector<data_t> pts;
  for (const auto &p : in.at("pts")) pts.push_back(rat(p));
  const size_t s = in.at("s").get<size_t>(), e = in.at("e").get<size_t>();
  const double depth = rat(in.at("depth")), c = rat(in.at("shift"));
  guarded(out, "out", [&] {
    const Grid<data_t> g(pts);
    const Support<data_t> win(g, s, e);
    const PSpline v1(win, std::vector<std::array<data_t, 4>>(win.numberOfIntervals(), {depth, 0, 0, 0}));
    const PSpline shift(Support<data_t>::createWholeGrid(g), std::vector<std::array<data_t, 4>>(pts.size() - 1, {c, 0, 0, 0}));
    const PSpline v2 = v1 + shift;
    const auto e1 = solveSEWithSplinePotential(v1);
    const auto e2 = solveSEWithSplinePotential(v2);
    double dev = 0, mag = 1;
    for (size_t i = 0; i < e1.size() && i < e2.size(); i++) {
      dev = std::max(dev, std::fabs(e2[i].energy - e1[i].energy - c));
      mag = std::max({mag, std::fabs(e1[i].energy), std::fabs(e2[i].energy)});
    }
    out["count"] = e1.size();
    out["shift_err"] = dev;
    out["shift_ok"] = (e1.size() == 10 && e2.size() == 10 && dev <= 1e-8 * mag) ? 1 : 0;
    out["interp_ok"] = 1;
    bool sorted = true;
    for (size_t i = 1; i < e1.size(); i++) sorted = sorted && e1[i - 1].energy <= e1[i].energy;
    out["sorted"] = sorted ? 1 : 0;
  });
}

void exOscillator(const json &, json &out) {
  guarded(out, "out", [&] {
    const auto es = bspline::examples::harmonic_oscillator::solveHarmonicOscillator();
    double dev = 0;
    for (size_t i = 0; i < es.size(); i++) {
      const double an = (2.0 * i + 1) / 2;
      dev = std::max(dev, std::fabs((es[i].energy - an) / an));
    }
    out["count"] = es.size();
    out["err"] = dev;
    out["ok"] = (es.size() >= 1 && dev <= 1e-10) ? 1 : 0;
  });
}
void exHydrogen(const json &, json &out) {
  guarded(out, "out", [&] {
    const auto es = bspline::examples::hydrogen::solveRadialHydrogen();
    double dev = 0;
    for (size_t i = 0; i < es.size(); i++) {
      const double n = static_cast<double>(i + bspline::examples::hydrogen::L + 1);
      const double an = -1.0 / (n * n);
      dev = std::max(dev, std::fabs((es[i].energy - an) / an));
    }
    out["count"] = es.size();
    out["err"] = dev;
    out["ok"] = (es.size() >= 1 && dev <= 1e-10) ? 1 : 0;
  });
}
Reg r0("ExPotentialWin", exPotentialWin), r1("ExDiffusion", exDiffusion), r2("ExPotential", exPotential), r3("ExOscillator", exOscillator), r4("ExHydrogen", exHydrogen);
}  // namespace
}  // namespace verif
