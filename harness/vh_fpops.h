// Floating-point handlers for generated operator expressions (see vh_ops.h).
#ifndef VERIF_VH_FPOPS_H
#define VERIF_VH_FPOPS_H
#include "vh_fp.h"

namespace verif {

template <typename E>
void fpApplyH(const json &in, json &out) {
  dropHints(out);
  const json &ja = in.at("a");
  forTypes(out, [&](auto tag, FpAcc &acc) {
    using F = decltype(tag);
    const Grid<F> g = mkGrid<F>(ja.at("g"));
    const Factors<F> fs(in, g);
    withOrder(ja.at("o").get<size_t>(), [&](auto O) {
      constexpr size_t o = decltype(O)::value;
      if constexpr (o <= 6) {   // operand orders up to 6 (results up to 9)
        const Spline<F, o> a = mkSpline<F, o>(ja, g);
        const auto e = E::template make<F>(fs);
        cmpSpline(acc, e * a, in.at("E").at("app"), in.at("S").at("app"), "app");
        if (in.at("E").contains("lf")) {
          const bspline::integration::LinearForm lf{E::template make<F>(fs)};
          acc.cmp(lf(a), ratQ(in.at("E").at("lf")), ratQ(in.at("S").at("lf")), "lf");
        }
        // tiny pass: every coefficient of the operand times 2^-70 (exact in all three types).  Operators are
        // linear in the spline (Ops!ApplyI commutes with ScaleI), so E and S are simply scaled by the same
        // power of two; all coefficients are then far below machine epsilon in absolute terms.
        {
          Q tiny = 1;
          F tinyF = 1;
          for (int i = 0; i < 70; i++) {
            tiny *= static_cast<Q>(0.5L);
            tinyF *= static_cast<F>(0.5);
          }
          auto cs = a.getCoefficients();
          for (auto &iv : cs)
            for (auto &v : iv) v *= tinyF;
          const Spline<F, o> at(a.getSupport(), std::move(cs));
          cmpSpline(acc, e * at, in.at("E").at("app"), in.at("S").at("app"), "app (operand * 2^-70)", tiny);
          if (in.at("E").contains("lf")) {
            const bspline::integration::LinearForm lf{E::template make<F>(fs)};
            acc.cmp(lf(at), ratQ(in.at("E").at("lf")) * tiny, ratQ(in.at("S").at("lf")) * tiny, "lf (operand * 2^-70)");
          }
        }
        // second pass: full-mantissa coefficients, exact twin as reference (see vh_fp.h)
#ifndef VH_NO_EXACT_TWIN
        if constexpr (E::exactable) try {
          const Grid<Rat> gr = mkGrid<Rat>(ja.at("g"));
          const Factors<Rat> fsr(in, gr);
          const auto ap = perturbedSpline(a, caseKey(in));
          const auto ar = exactTwin(ap, gr);
          const auto er = E::template make<Rat>(fsr);
          cmpSplineTwin(acc, e * ap, er * ar, in.at("S").at("app"), "papp");
        } catch (const RatError &) {
          // the exact twin left its 128-bit integers: this case has no perturbed pass
        }
#endif
      }
    });
  });
}

template <typename E1, typename E2>
void fpBFH(const json &in, json &out) {
  dropHints(out);
  const json &ja = in.at("a"), &jb = in.at("b");
  forTypes(out, [&](auto tag, FpAcc &acc) {
    using F = decltype(tag);
    const Grid<F> g = mkGrid<F>(ja.at("g"));
    const Factors<F> fs(in, g);
    withOrder(ja.at("o").get<size_t>(), [&](auto OA) {
      withOrder(jb.at("o").get<size_t>(), [&](auto OB) {
        constexpr size_t oa = decltype(OA)::value, ob = decltype(OB)::value;
        if constexpr (oa <= 2 && ob <= 2) {
          const Spline<F, oa> a = mkSpline<F, oa>(ja, g);
          const Spline<F, ob> b = mkSpline<F, ob>(jb, g);
          const bspline::integration::BilinearForm f{E1::template make<F>(fs), E2::template make<F>(fs)};
          // sameobj: the very same object on both sides (a diagonal element bf(s, s))
          bool same = false;
          if constexpr (oa == ob) {
            if (in.value("sameobj", 0) != 0) {
              same = true;
              acc.cmp(f(a, a), ratQ(in.at("E")), ratQ(in.at("S")), "bf(s,s)");
              acc.cmp(f.evaluate(a, a), ratQ(in.at("E")), ratQ(in.at("S")), "evaluate(s,s)");
            }
          }
          if (same) return;
          acc.cmp(f(a, b), ratQ(in.at("E")), ratQ(in.at("S")), "bf");
#ifndef VH_NO_EXACT_TWIN
          if constexpr (E1::exactable && E2::exactable) try {  // second pass, full-mantissa coefficients
            const Grid<Rat> gr = mkGrid<Rat>(ja.at("g"));
            const Factors<Rat> fsr(in, gr);
            const auto ap = perturbedSpline(a, caseKey(in));
            const auto bp = perturbedSpline(b, caseKey(in) + 13);
            const auto ar = exactTwin(ap, gr);
            const auto br = exactTwin(bp, gr);
            const bspline::integration::BilinearForm fr{E1::template make<Rat>(fsr), E2::template make<Rat>(fsr)};
            acc.cmp(f(ap, bp), ratToQ(fr(ar, br)), 2 * ratQ(in.at("S")), "pbf");
          } catch (const RatError &) {
          }
#endif
        }
      });
    });
  });
}

template <typename E>
struct RegApply {
  explicit RegApply(const char *key) { applyRegistry()[key] = fpApplyH<E>; }
};
template <typename E1, typename E2>
struct RegBF {
  explicit RegBF(const char *key) { bfRegistry()[key] = fpBFH<E1, E2>; }
};
}  // namespace verif
#endif
