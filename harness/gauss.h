// Exact dense solver for interpolation::interpolate<T, order, Solver>.
// Uses only the documented scalar operations (so it works for Rat), chooses
// the first non-zero pivot, and records how the library drives the ISolver
// protocol: construct(size) -> writes to M/b inside the size -> solve() once
// -> reads of x inside the size.
#ifndef VERIF_GAUSS_H
#define VERIF_GAUSS_H

#include <bspline/interpolation/interpolation.h>

#include <stdexcept>
#include <vector>

namespace verif {

struct SingularSystem : public std::runtime_error {
  SingularSystem() : std::runtime_error("singular system") {}
};

struct SolverLog {
  size_t constructed = 0, size = 0, mAccess = 0, bAccess = 0, xAccess = 0, solves = 0;
  size_t outOfRange = 0;      // any index outside the problem size
  size_t writeAfterSolve = 0; // M/b touched after solve()
  size_t readBeforeSolve = 0; // x touched before solve()
  void reset() { *this = SolverLog{}; }
};
inline SolverLog &solverLog() {
  static thread_local SolverLog l;
  return l;
}

template <typename T>
class GaussSolver final : public bspline::interpolation::internal::ISolver<T> {
  size_t _n;
  std::vector<T> _M, _b, _x;
  T _dummy;
  bool _solved = false;

 public:
  explicit GaussSolver(size_t n) : _n(n), _M(n * n, static_cast<T>(0)), _b(n, static_cast<T>(0)), _x(n, static_cast<T>(0)), _dummy(static_cast<T>(0)) {
    solverLog().constructed++;
    solverLog().size = n;
  }
  T &M(size_t i, size_t j) override {
    solverLog().mAccess++;
    if (_solved) solverLog().writeAfterSolve++;
    if (i >= _n || j >= _n) {
      solverLog().outOfRange++;
      return _dummy;
    }
    return _M[i * _n + j];
  }
  T &b(size_t i) override {
    solverLog().bAccess++;
    if (_solved) solverLog().writeAfterSolve++;
    if (i >= _n) {
      solverLog().outOfRange++;
      return _dummy;
    }
    return _b[i];
  }
  T &x(size_t i) override {
    solverLog().xAccess++;
    if (!_solved) solverLog().readBeforeSolve++;
    if (i >= _n) {
      solverLog().outOfRange++;
      return _dummy;
    }
    return _x[i];
  }
  void solve() override {
    solverLog().solves++;
    _solved = true;
    const T zero = static_cast<T>(0);
    std::vector<T> A = _M, r = _b;
    const size_t n = _n;
    for (size_t c = 0; c < n; c++) {
      size_t piv = c;
      while (piv < n && A[piv * n + c] == zero) piv++;
      if (piv == n) throw SingularSystem();
      if (piv != c) {
        for (size_t k = 0; k < n; k++) std::swap(A[piv * n + k], A[c * n + k]);
        std::swap(r[piv], r[c]);
      }
      for (size_t i = c + 1; i < n; i++) {
        if (A[i * n + c] == zero) continue;
        const T f = A[i * n + c] / A[c * n + c];
        for (size_t k = c; k < n; k++) A[i * n + k] -= f * A[c * n + k];
        r[i] -= f * r[c];
      }
    }
    for (size_t ii = n; ii-- > 0;) {
      T s = r[ii];
      for (size_t k = ii + 1; k < n; k++) s -= A[ii * n + k] * _x[k];
      _x[ii] = s / A[ii * n + ii];
    }
  }
};

}  // namespace verif
#endif
