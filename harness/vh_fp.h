// Floating-point conformance: the real library runs in float, double and long
// double on dyadic inputs; every result is compared with the exact value E
// and magnitude S supplied by the specification:  |F - E| <= 2^20 eps_F S.
// The inequality is evaluated in __float128 (the slack of 2^20 dwarfs the
// comparison's own rounding).  Results are also digested bit-exactly so that
// builds (self-checks on/off, optimisation levels) can be compared.
#ifndef VERIF_VH_FP_H
#define VERIF_VH_FP_H

#include <cmath>
#include <cstdio>
#include <functional>
#include <limits>
#include <string>

#include "vh_common.h"

namespace verif {

using Q = __float128;
inline Q qabs(Q x) { return x < 0 ? -x : x; }
inline Q ratQ(const json &r) { return static_cast<Q>(r.at(0).get<long long>()) / static_cast<Q>(r.at(1).get<long long>()); }

struct FpAcc {
  bool ok = true;
  long double worst = 0;  // max |F-E| / (eps S)
  std::string where;
  unsigned long long digest = 1469598103934665603ULL;  // FNV-1a over the bit patterns
  long n = 0;
  long zn = 0, zp = 0;  // predicate probes on splines that denote zero (signed zeros): asked / answered "zero"
  void zero(bool answer) {
    zn++;
    if (answer) zp++;
  }
  void feed(long double v) {
    char buf[64];
    const int len = std::snprintf(buf, sizeof buf, "%La;", v);
    for (int i = 0; i < len; i++) {
      digest ^= static_cast<unsigned char>(buf[i]);
      digest *= 1099511628211ULL;
    }
  }
  template <typename F>
  void cmp(F f, Q e, Q s, const std::string &what) {
    n++;
    feed(static_cast<long double>(f));
    const Q eps = static_cast<Q>(std::numeric_limits<F>::epsilon());
    const Q err = qabs(static_cast<Q>(f) - e);
    const Q tol = static_cast<Q>(1048576.0L) * eps * s;
    const bool fin = (f == f) && (f - f == 0);  // finite
    if (!fin || !(err <= tol)) {
      if (ok) where = what;
      ok = false;
    }
    if (fin && s > 0) {
      const long double ratio = static_cast<long double>(err / (eps * s));
      if (ratio > worst) worst = ratio;
    }
  }
  json toJson() const {
    json j;
    j["ok"] = ok ? 1 : 0;
    j["worst"] = static_cast<double>(worst);
    j["n"] = n;
    j["where"] = where;
    j["zn"] = zn;
    j["zp"] = zp;
    char buf[32];
    std::snprintf(buf, sizeof buf, "%016llx", digest);
    j["digest"] = buf;
    return j;
  }
};

// compares a float spline with the exact spline E / magnitude S on the level of
// the denoted functions: per grid interval, coefficient by coefficient; where
// one side has no interval (or fewer coefficients) the missing entries are 0
// scale: E and S are multiplied by it (an exact power of two: the operand was scaled by it)
template <typename F, size_t O>
void cmpSpline(FpAcc &acc, const Spline<F, O> &r, const json &E, const json &S, const std::string &what, Q scale = 1) {
  const size_t npts = r.getSupport().getGrid().size();
  const size_t rs = r.getSupport().getStartIndex();
  const size_t es = E.at("s").get<size_t>();
  const auto &rc = r.getCoefficients();
  const json &ec = E.at("c"), &sc = S.at("c");
  for (size_t j = 0; j + 1 < npts; j++) {
    const bool inR = j >= rs && (j - rs) < rc.size();
    const bool inE = j >= es && (j - es) < ec.size();
    if (!inR && !inE) continue;
    const size_t ne = inE ? ec[j - es].size() : 0;
    const size_t nmax = std::max<size_t>(inR ? O + 1 : 0, ne);
    for (size_t k = 0; k < nmax; k++) {
      const F f = (inR && k <= O) ? rc[j - rs][k] : static_cast<F>(0);
      const Q e = (inE && k < ne) ? ratQ(ec[j - es][k]) * scale : 0;
      const Q s = (inE && k < ne) ? ratQ(sc[j - es][k]) * scale : 0;
      acc.cmp(f, e, s, what + "[" + std::to_string(j) + "][" + std::to_string(k) + "]");
    }
  }
}

// ---------------------------------------------------------------- perturbed inputs
// Short dyadic inputs (all TLC's 32-bit integers can express) make most
// floating-point operations exact, so rounding behaviour would hardly be
// exercised.  Every case is therefore run a second time with each spline
// coefficient c replaced by c (1 + u 2^-10), u a pseudo-random 24-bit fraction
// in [-1, 1): full-mantissa values, still exactly representable in every type.
// The exact reference for the perturbed input is the same library call made
// with the exact scalar Rat on the exact values of the perturbed inputs (the
// exact instantiation is what the exact families validate against the
// specification); the magnitude is the specification's S for the unperturbed
// input times 2 (S is a sum of products of absolute values: a relative change
// of at most 2^-10 per input changes it by far less than a factor 2).
inline float unitNoise(unsigned long long key) {
  key ^= key >> 33;
  key *= 0xff51afd7ed558ccdULL;
  key ^= key >> 33;
  key *= 0xc4ceb9fe1a85ec53ULL;
  key ^= key >> 33;
  return static_cast<float>(static_cast<long long>(key & 0xffffff) - 0x800000) / 8388608.0f;
}
template <typename F>
F perturbed(F c, unsigned long long key) {
  const float cf = static_cast<float>(c);  // inputs are short dyadic numbers: exact
  return static_cast<F>(cf + cf * (unitNoise(key) * 0.0009765625f));
}
inline Rat toRat(long double v) {
  if (v == 0) return Rat::make(0, 1);
  int e = 0;
  const long double m = std::frexp(v, &e);            // v = m 2^e, 0.5 <= |m| < 1
  const long long mant = static_cast<long long>(std::ldexp(m, 40));  // 24-bit inputs: exact
  const int sh = e - 40;
  Rat r = Rat::make(mant, 1);
  const Rat two = Rat::make(2, 1);
  for (int i = 0; i < (sh < 0 ? -sh : sh); i++) r = sh < 0 ? r / two : r * two;
  return r;
}
inline Q ratToQ(const Rat &r) { return static_cast<Q>(r.num()) / static_cast<Q>(r.den()); }

template <typename F, size_t O>
Spline<F, O> perturbedSpline(const Spline<F, O> &a, unsigned long long key) {
  auto c = a.getCoefficients();
  for (size_t r = 0; r < c.size(); r++)
    for (size_t k = 0; k <= O; k++) c[r][k] = perturbed(c[r][k], key * 1315423911ULL + r * 131 + k);
  return Spline<F, O>(a.getSupport(), std::move(c));
}
template <typename F, size_t O>
Spline<Rat, O> exactTwin(const Spline<F, O> &a, const Grid<Rat> &g) {
  std::vector<std::array<Rat, O + 1>> c(a.getCoefficients().size());
  for (size_t r = 0; r < c.size(); r++)
    for (size_t k = 0; k <= O; k++) c[r][k] = toRat(static_cast<long double>(a.getCoefficients()[r][k]));
  return Spline<Rat, O>(Support<Rat>(g, a.getSupport().getStartIndex(), a.getSupport().getEndIndex()), std::move(c));
}
// float result vs exact twin result, magnitude 2 S (S: the spec's magnitude spline for the base input)
template <typename F, size_t O>
void cmpSplineTwin(FpAcc &acc, const Spline<F, O> &r, const Spline<Rat, O> &e, const json &S, const std::string &what) {
  const size_t rs = r.getSupport().getStartIndex(), ss = S.at("s").get<size_t>();
  const json &sc = S.at("c");
  for (size_t i = 0; i < r.getCoefficients().size(); i++) {
    const size_t j = rs + i;
    const bool inS = j >= ss && (j - ss) < sc.size();
    for (size_t k = 0; k <= O; k++) {
      const Q s = (inS && k < sc[j - ss].size()) ? 2 * ratQ(sc[j - ss][k]) : 0;
      acc.cmp(r.getCoefficients()[i][k], ratToQ(e.getCoefficients().at(i)[k]), s, what + "[" + std::to_string(j) + "][" + std::to_string(k) + "]");
    }
  }
}
inline unsigned long long caseKey(const json &in) { return std::hash<std::string>{}(in.at("a").dump() + in.value("op", "")); }

// runs body(F{}, acc) for the three built-in types and records the verdicts
template <typename Body>
void forTypes(json &out, Body &&body) {
  {
    FpAcc a;
    guarded(out, "out_f", [&] { body(float{}, a); });
    out["float"] = a.toJson();
  }
  {
    FpAcc a;
    guarded(out, "out_d", [&] { body(double{}, a); });
    out["double"] = a.toJson();
  }
  {
    FpAcc a;
    guarded(out, "out_l", [&] { body(static_cast<long double>(0), a); });
    out["ldouble"] = a.toJson();
  }
}

// the case's E/S are bulky: do not echo them into the event
inline void dropHints(json &out) {
  out.erase("E");
  out.erase("S");
}

}  // namespace verif
#endif
