// Floating-point conformance: the real library runs in float, double and long
// double on dyadic inputs; every result is compared with the exact value E
// and magnitude S supplied by the specification:  |F - E| <= 2^20 eps_F S.
// The inequality is evaluated in __float128 (the slack of 2^20 dwarfs the
// comparison's own rounding).  Results are also digested bit-exactly so that
// builds (self-checks on/off, optimisation levels) can be compared.
#ifndef VERIF_VH_FP_H
#define VERIF_VH_FP_H

#include <cstdio>
#include <limits>
#include <string>

#include "vh_common.h"

namespace verif {

using Q = __float128;
inline Q qabs(Q x) { return x < 0 ? -x : x; }
inline Q ratQ(const json &r) { return static_cast<Q>(r.at(0).get<long long>()) / static_cast<Q>(r.at(1).get<long long>()); }

struct FpAcc {
  bool ok = true;
  long double worst = 0;  // max |F-E| / (eps S)
  std::string where;
  unsigned long long digest = 1469598103934665603ULL;  // FNV-1a over the bit patterns
  long n = 0;
  void feed(long double v) {
    char buf[64];
    const int len = std::snprintf(buf, sizeof buf, "%La;", v);
    for (int i = 0; i < len; i++) {
      digest ^= static_cast<unsigned char>(buf[i]);
      digest *= 1099511628211ULL;
    }
  }
  template <typename F>
  void cmp(F f, Q e, Q s, const std::string &what) {
    n++;
    feed(static_cast<long double>(f));
    const Q eps = static_cast<Q>(std::numeric_limits<F>::epsilon());
    const Q err = qabs(static_cast<Q>(f) - e);
    const Q tol = static_cast<Q>(1048576.0L) * eps * s;
    const bool fin = (f == f) && (f - f == 0);  // finite
    if (!fin || !(err <= tol)) {
      if (ok) where = what;
      ok = false;
    }
    if (fin && s > 0) {
      const long double ratio = static_cast<long double>(err / (eps * s));
      if (ratio > worst) worst = ratio;
    }
  }
  json toJson() const {
    json j;
    j["ok"] = ok ? 1 : 0;
    j["worst"] = static_cast<double>(worst);
    j["n"] = n;
    j["where"] = where;
    char buf[32];
    std::snprintf(buf, sizeof buf, "%016llx", digest);
    j["digest"] = buf;
    return j;
  }
};

// compares a float spline with the exact spline E / magnitude S on the level of
// the denoted functions: per grid interval, coefficient by coefficient; where
// one side has no interval (or fewer coefficients) the missing entries are 0
template <typename F, size_t O>
void cmpSpline(FpAcc &acc, const Spline<F, O> &r, const json &E, const json &S, const std::string &what) {
  const size_t npts = r.getSupport().getGrid().size();
  const size_t rs = r.getSupport().getStartIndex();
  const size_t es = E.at("s").get<size_t>();
  const auto &rc = r.getCoefficients();
  const json &ec = E.at("c"), &sc = S.at("c");
  for (size_t j = 0; j + 1 < npts; j++) {
    const bool inR = j >= rs && (j - rs) < rc.size();
    const bool inE = j >= es && (j - es) < ec.size();
    if (!inR && !inE) continue;
    const size_t ne = inE ? ec[j - es].size() : 0;
    const size_t nmax = std::max<size_t>(inR ? O + 1 : 0, ne);
    for (size_t k = 0; k < nmax; k++) {
      const F f = (inR && k <= O) ? rc[j - rs][k] : static_cast<F>(0);
      const Q e = (inE && k < ne) ? ratQ(ec[j - es][k]) : 0;
      const Q s = (inE && k < ne) ? ratQ(sc[j - es][k]) : 0;
      acc.cmp(f, e, s, what + "[" + std::to_string(j) + "][" + std::to_string(k) + "]");
    }
  }
}

// runs body(F{}, acc) for the three built-in types and records the verdicts
template <typename Body>
void forTypes(json &out, Body &&body) {
  {
    FpAcc a;
    guarded(out, "out_f", [&] { body(float{}, a); });
    out["float"] = a.toJson();
  }
  {
    FpAcc a;
    guarded(out, "out_d", [&] { body(double{}, a); });
    out["double"] = a.toJson();
  }
  {
    FpAcc a;
    guarded(out, "out_l", [&] { body(static_cast<long double>(0), a); });
    out["ldouble"] = a.toJson();
  }
}

// the case's E/S are bulky: do not echo them into the event
inline void dropHints(json &out) {
  out.erase("E");
  out.erase("S");
}

}  // namespace verif
#endif
