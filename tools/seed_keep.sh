#!/bin/bash
# tools/seed_keep.sh <seed-out-dir> "<result line from seedtest.sh>"  -> /verif/seeded/<id>/
D=$1; R=$2; ID=$(basename $D); mkdir -p /verif/seeded/$ID
cp $D/patch.diff $D/demo.cpp /verif/seeded/$ID/
python3 - "$D" "$R" "$ID" <<'PY'
import json,sys
d,r,i=sys.argv[1:4]
m=json.load(open(d+'/meta.json'))
m['confirmed']={'how':'tools/seedtest.sh: patch applied to a scratch worktree of /repo HEAD; demo compiled against HEAD (exit 0) and against the changed tree (exit 1); existing suite run with tools/baseline.sh on the changed tree; checks run with VERIF_REPO=<worktree> ./check <id> --tier quick','result':r}
json.dump(m,open('/verif/seeded/%s/meta.json'%i,'w'),indent=1)
PY
