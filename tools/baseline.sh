#!/bin/bash
# Runs the repository's own test suite (guard OFF, no verification flags) from
# /repo's current working tree in a scratch build directory and prints one
# line per Boost test case.  Exit 0 iff every test case passed.
set -u
B=$(mktemp -d /tmp/bspline_baseline.XXXXXX)
trap 'rm -rf "$B"' EXIT
cmake -S "${VERIF_REPO:-/repo}" -B "$B" -G Ninja -DCMAKE_BUILD_TYPE=RelWithDebInfo -DCMAKE_CXX_FLAGS="-Wno-error" >"$B/conf.log" 2>&1 || { tail -20 "$B/conf.log"; exit 2; }
cmake --build "$B" -j"$(nproc)" >"$B/build.log" 2>&1 || { tail -40 "$B/build.log"; exit 2; }
"$B/tests/test" --report_level=detailed --log_level=test_suite 2>&1 | grep -E 'Leaving test case|error|failed|passed' | sed -e 's/^.*Leaving test case/PASS?/' | tail -60
"$B/tests/test" >/dev/null 2>&1
rc=$?
echo "baseline exit code: $rc"
exit $rc
