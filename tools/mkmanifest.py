#!/usr/bin/env python3
"""Regenerates /verif/MANIFEST.json from the table below (kept in one place so
the manifest stays valid while checks are being added)."""
import json, os, sys
V = os.path.dirname(os.path.dirname(os.path.abspath(__file__)))

TB = ("TLC 1.8 and the hand-written specification (spec/*.tla); the conformance harness (harness/*.cpp) that projects "
      "real objects through public accessors; g++ 12 / libstdc++; bounded domains of spec/Domains.tla standing for all "
      "inputs by the small-scope arguments of DESIGN.md 2.5 (incl. the size sweep over interval counts and the high-order cases of section 11a)")

CHECKS = {
 "C18": ("model_checking", "TLC explores every interleaving of the Sharing model (threads x shared immutable block x atomic count x guarded static, micro-step granularity): no read of freed storage, count = live handles, freed exactly once, every thread's values equal its sequential values, termination under weak fairness; the three negative controls (non-atomic count, unguarded static, shared scratch) must be rejected. On the code: 2..16 threads run the TLC-generated cases simultaneously on shared const operands/operators/forms/generators, in a free-running and in a lockstep schedule (neighbouring cases - same instantiation, different data - at the very same time); per-thread logs must be identical to the sequential log (exact scalar as text, double as bit patterns), logs are validated by TLC against the sequential contracts, use counts must return to the pre-spawn values, and the ThreadSanitizer build observes races.", "5 C18",
         "TLA+ model of the sharing protocol (all interleavings, liveness, negative controls) + threaded replay of TLC-generated cases with per-thread trace validation and TSan observer"),
 "C20": ("other", "TLC checks the diffusion solver's skeleton (move out first/last, erase first, remove last, assemble) against std::vector's preconditions for every basis size and must reject the pinned erase(end()); the diffusion algorithm itself is run inside the specification at reduced order with an exact solve (ExamplesAlg: end values, scale invariance, straight line); the repository's own example objects are run on TLC-enumerated admissible inputs in a plain build and under ASan/UBSan/_GLIBCXX_DEBUG, and the stated contracts (boundary values, scale invariance, straight line, eigenvalue shift, n+1/2, -1/n^2) are compared with tolerance.", "5 C20",
         "TLA+ skeleton of the example algorithm checked by TLC + conformance runs of the example objects on TLC-enumerated inputs with sanitizer observers and tolerances"),
 "C09": ("model_checking", "The specification states the index-bounds obligations (every Level-I lookup goes through a checked index; checked accessors refuse every index outside the view over the whole model word) and TLC checks them; the TLC-generated cases of ALL families (supports, splines, generator, interpolation, operator expressions with every factor placement, forms, histories) are replayed in a build with ASan + UBSan + libstdc++ assertions, where an observer report becomes an event no specification action explains; a cross-section also runs under valgrind memcheck (uninitialised reads); the accessor contract incl. indices 2^64-k is validated by TLC.", "5 C09",
         "TLA+ index/bounds invariants checked by TLC + replay of all TLC-generated executions under sanitizer observers + trace validation"),
 "C12": ("model_checking", "TLC emits abscissa windows of uniform and strongly non-uniform grids, ordinates, orders 1..3(4) and boundary sets (default, one-sided, mixed, invalid); the real interpolate<Rat, order, exact Gauss solver> runs every case and TLC accepts the returned spline iff InterpPost holds exactly (node values from both adjacent pieces, continuity of derivatives 1..order-1, every boundary row) and the ISolver protocol was followed; a singular report is accepted only outside the sets shown uniquely solvable. The bundled dense (Eigen) route runs the same inputs in float, double and long double; the residual of every interpolation condition, evaluated in __float128, must stay within 2^20 eps (||M|| ||x|| + ||b||).", "5 C12",
         "TLA+ relational post-condition + TLC-generated cases + exact-solver execution of the real routine + trace validation"),
 "C16": ("exploration", "For float, double and long double the real library runs the TLC-generated well-scaled dyadic cases (generator, evaluation, + - *, operator application, linear and bilinear forms); TLC supplies the exact value E and the abs-mode magnitude S (checked by TLC to dominate |E|); the harness evaluates |F-E| <= 2^20 eps S in __float128 and TLC judges the recorded verdicts; a second pass repeats every case with full-mantissa perturbed coefficients (so that rounding really happens) against the exact-scalar run of the same call, with magnitude 2 S; inputs include a grid far from the origin relative to its spacing, an interval centred at 0 and operand orders up to 6; builds with and without BSPLINE_ADD_TEST_CHECKS must agree bit for bit (thorough: -O0/-O3/clang too).", "5 C16",
         "TLC-generated cases with exact reference and magnitude from the TLA+ spec + floating-point replay of the real code against the stated relation"),
 "C17": ("exploration", "integrate<n> (n = 1..7, polynomial weights of degree 0..6 so that total degrees up to 12 occur, double and long double; a size sweep over every interval count) on TLC-generated spline pairs on both sides of the exactness bound; TLC supplies the exact weighted integral over the common intervals and its magnitude; the relation is required where 2n-1 >= o1+o2+d, only 'zero when disjoint' elsewhere.", "5 C17",
         "TLC-generated cases with exact integral from the TLA+ spec + floating-point replay against the stated relation"),
 "C08": ("model_checking", "Every multi-spline entry point is run on TLC-enumerated grid variants (one point moved, extra point front/back/inside, prefix, suffix, equal copy in a distinct object) and placements: stateless events for + - * += -= linearCombination, supports, operators/forms with a foreign spline factor, generator with a supplied grid, integrate<n> in double/long double; plus TLC-generated histories with interleaved cross-grid calls validated sequentially (Trace_Life): refusal with DIFFERING_GRIDS, nothing returned, arguments unchanged; equal grids in distinct objects behave as one.", "5 C08",
         "TLA+ spec + TLC-generated cases and histories + stateless and sequential trace validation of refusals and frame conditions"),
 "C10": ("model_checking", "TLC checks PoolValid and the step contracts on the model of the object-pool state machine (MC_Life: simulation seeded with VERIF_SEED and exhaustive BFS of all two-command continuations) and emits the histories; real objects execute them (builds with and without BSPLINE_ADD_TEST_CHECKS) and the sequential trace specification Trace_Life evaluates the class invariants on every logged object after every step, incl. moved-from objects and failed calls; stateless results of all arithmetic are checked for validity too.", "5 C10",
         "TLA+ object-pool state machine + TLC simulation/BFS history generation + sequential trace validation (invariants after every step)"),
 "C14": ("model_checking", "Same histories as C10; the harness logs the projection delta of ALL live slots after every call, coefficient-storage aliasing, grid block contents and use counts; Trace_Life accepts a step only if nothing outside the declared target changed, a throwing step changed nothing, no storage is aliased and no grid block was written. Stateless events additionally compare every operand before/after each call.", "5 C14",
         "TLA+ frame conditions (action properties) + sequential trace validation of logged deltas of the whole pool"),
 "C01": ("model_checking", "TLC checks on every enumerated knot vector that the Cox-de Boor definition has local support, partition of unity, C^{p-mu} smoothness, non-negativity and the integral identity, and that the implementation-shaped recursion (zeroth order via findElement, then prefac*(X<1>-t_i)*B_i += ...) refines it; the real generator (both routes and the free function, exact scalar) runs every knot vector and TLC accepts the logged basis iff GenPost holds; float, double and long double runs (incl. knots scaled exactly by 2^-60) are compared with the spec's exact basis and magnitude.", "5 C01",
         "TLA+ spec of the Cox-de Boor recursion + TLC model checking of its theorems and of the implementation-shaped model + trace validation of generated bases from the real code"),
 "C04": ("model_checking", "TLC checks falling-factorial derivative and binomial position expansion (Level I) against d^n/du^n and n-fold multiplication by (u+xm) (Level A); the real Dx<n>, X<n>, IdentityOperator are applied with the exact scalar to unit-vector and generic splines on every window incl. an off-origin grid, on a size sweep (every interval count 1..40, 63..66) and on orders 7..24 incl. Dx<8..12> (judged on the contract), and validated by TLC.", "5 C04",
         "TLA+ spec + TLC model checking + trace validation of TLC-enumerated (operator, spline) cases compiled from the spec's ASTs"),
 "C05": ("model_checking", "Every AST TLC enumerates (all depth<=2 trees over Id, X, Dx, spline factor and scalars of type T/int/unsigned in every position, plus named identities) is compiled as the C++ expression it spells and applied to TLC-enumerated operand/factor placements; TLC validates each result against DenApply (structural recursion on textbook definitions) after checking that the implementation-shaped TransformI refines it.", "5 C05",
         "TLA+ spec of operator ASTs + TLC model checking + generated C++ per AST + trace validation"),
 "C06": ("model_checking", "TLC checks the kernel model (even-power collection, Horner in h^2) against the antiderivative integral of the DenApply product, symmetry and BF = LF(product); BilinearForm{O1,O2}(a,b) of the real code (exact scalar) is validated per event against the exact integral, with swapped pairs.", "5 C06",
         "TLA+ spec + TLC model checking + trace validation of bilinear forms on TLC-enumerated operator/spline pairs"),
 "C07": ("model_checking", "As C06 for LinearForm{O}(a) on every OpApply case, plus the relation BF(O1,O2)(a,b) = LF_id((O1 a)*(O2 b)) between three results of the real code on every OpBF case.", "5 C07",
         "TLA+ spec + TLC model checking + trace validation of linear forms and of the BF/LF relation"),
 "C11": ("model_checking", "TLC checks Accepts <=> Valid for the validity scans of grids, supports, splines and knot vectors and emits every short sequence / index pair / count mismatch; accepted/refused and the exception type of the real code are validated per event (exact scalar; special floating values are handled in the floating family).", "5 C11",
         "TLA+ spec + TLC model checking of the validity predicates + trace validation of accept/refuse outcomes"),
 "C19": ("other", "The exact-archetype build is the check: harness/c19_inst.cpp instantiates and uses every core template and the generic interpolate with a scalar offering only the documented operations, compiled with g++ and clang++; a compile error while double compiles is the violation. A cross-section of all exact conformance families is replayed with every contract enabled (results exact).", "5 C19",
         "compile the library against a minimal exact scalar archetype (the C++ mirror of the spec's scalar signature) + exact replay of TLC-generated cases"),
 "C02": ("model_checking", "TLC explores MC_Spl (Level-I evaluation model => Level-A EvalPost on every explored case) and emits the cases; the real operator()/front()/back() are run with the exact scalar Rat on every case and TLC (Trace_Stateless, view C02) accepts each recorded event only if EvalPost holds between logged spline, abscissa and value. Exhaustive over all windows of the domain grids, orders, coefficient variants incl. discontinuous pieces, and probes in every region.", "5 C02",
         "TLA+ spec + TLC model checking (I=>A) + TLC-generated cases replayed in the real code, events validated by TLC against the Level-A contract"),
 "C03": ("model_checking", "TLC checks that the implementation-shaped models of + - * scalar ops, cross-order assignment and linearCombination satisfy the Den-level contracts on every explored operand pair, and emits the pairs; the real operators (exact scalar) execute every case and TLC validates every recorded result against the contract (view C03); the domain includes a long grid, operand orders up to 5 and a size sweep over every interval count 1..40, 63..66.", "5 C03",
         "TLA+ spec + TLC model checking (I=>A, algebraic laws) + trace validation of TLC-generated cases executed by the real code"),
 "C13": ("model_checking", "Apalache discharges the window lattice laws and the index-conversion guards over unbounded integers with the true modulus 2^64 (and refutes the pinned formulations); TLC checks the support lattice laws, Level I => Level A for union/intersection/equality/index conversions over the whole model index word, and emits all windows, pairs, triples and index arguments (incl. 2^64-k) of the domain; real Support<Rat> objects execute them and TLC validates every recorded result on the representation (view C13).", "5 C13",
         "TLA+ spec + TLC exhaustive model checking of the index/window algebra + trace validation of all enumerated calls on real Support objects"),
 "C15": ("model_checking", "TLC checks IsZeroI/OverlapI/SplEqI against their contracts on every explored spline/pair and emits them; isZero, checkOverlap, ==, != of the real code are validated by TLC per event (view C15), incl. a size sweep over every interval count; signed zeros (a*0, a*-0, a-a, ...) in float, double and long double must be reported zero.", "5 C15",
         "TLA+ spec + TLC model checking + trace validation of predicates on TLC-enumerated spline pairs"),
}

NOT_YET = {}
ALL = ["C%02d" % i for i in range(1, 21)]

def main():
    checks = []
    for pid in sorted(CHECKS):
        cat, text, ref, tech = CHECKS[pid]
        checks.append({
            "property_id": pid,
            "quick_cmd": "./check %s --tier quick" % pid,
            "thorough_cmd": "./check %s --tier thorough" % pid,
            "evidence_file": "/verif/evidence/%s.json" % pid,
            "replay_cmd_template": "./check %s --replay {path}" % pid,
            "engine": "tlc-conformance",
            "level_claimed": {"category": cat, "text": text, "design_ref": "DESIGN.md section " + ref},
            "level_note": TB,
            "technique": tech,
        })
    na = [{"property_id": p, "reason": NOT_YET.get(p, "check under construction in this round (see DESIGN.md section 10); not claimed until its Gen->Exec->Validate loop is committed")}
          for p in ALL if p not in CHECKS]
    m = {
        "version": 1,
        "setup_cmd": "./tools/setup.sh",
        "hooks": {"guard": "BSPLINE_VERIF_HOOKS", "enable": "no source hooks are needed: the public accessors expose the whole abstract state; checks compile harness/*.cpp against /repo/include",
                  "baseline_off_cmd": "./tools/baseline.sh", "source_commits": [], "add_only": True},
        "engines": [{"name": "tlc-conformance", "path": "tools/check.py", "serves_properties": sorted(CHECKS),
                     "kind_free_text": "TLA+ specification (spec/) model-checked by TLC; TLC-generated cases executed by the C++ conformance harness (harness/) on the real library; recorded events validated by TLC against the Level-A contracts"}],
        "checks": checks,
        "not_applicable": na,
        "notes": "Exit codes: 0 held, 1 violation (VIOLATION line), 2 machinery failure. Known findings / fixed defects: known_findings.json. See DESIGN.md.",
    }
    json.dump(m, open(os.path.join(V, "MANIFEST.json"), "w"), indent=1)

main()
