#!/bin/bash
# tools/run_all.sh [quick|thorough] [ids...]: runs the registered checks against /repo, one after the other.
T=${1:-quick}; shift
IDS=${*:-$(python3 -c "import json;print(' '.join(c['property_id'] for c in json.load(open('/verif/MANIFEST.json'))['checks']))")}
cd /verif
for p in $IDS; do
  s=$(date +%s); ./check $p --tier $T > /tmp/runall_$p.out 2>&1; rc=$?
  echo "$p rc=$rc $(( $(date +%s) - s ))s $(grep -c '^VIOLATION' /tmp/runall_$p.out) violations $(grep -c '^KNOWN-FINDING' /tmp/runall_$p.out) known"
done
