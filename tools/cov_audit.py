#!/usr/bin/env python3
"""tools/cov_audit.py [ids...]  — line-coverage audit of the conformance harnesses.

Runs the quick tier of the named checks (default: all but C09/C18, whose
sanitizer/thread builds add nothing to line coverage) from a scratch copy of
/verif with VERIF_COV=1 (g++ --coverage, -O0), merges the gcov counts of every
harness binary and prints, per file of /repo/include and /repo/examples, the
lines no replayed case reached.  Not a registered check: it answers "which
code does the specification never drive", it decides no property.
The scratch copy lives under $TMPDIR (default /tmp) and is removed at the end."""
import collections
import glob
import json
import os
import shutil
import subprocess
import sys
import tempfile

VERIF = os.path.dirname(os.path.dirname(os.path.abspath(__file__)))
ids = sys.argv[1:] or ["C%02d" % i for i in range(1, 21) if i not in (9, 18)]
tmp = tempfile.mkdtemp(prefix="vcov_")
try:
    subprocess.run(["rsync", "-a", "--exclude", ".cache", "--exclude", ".work", "--exclude", "replays", "--exclude", ".git", VERIF + "/", tmp + "/"], check=True)
    env = dict(os.environ, VERIF_COV="1", VERIF_OUT=os.path.join(tmp, "out"))
    for p in ids:
        r = subprocess.run([os.path.join(tmp, "check"), p, "--tier", "quick"], env=env, stdout=subprocess.DEVNULL, stderr=subprocess.DEVNULL)
        print("%s rc=%d" % (p, r.returncode), flush=True)
    cov = collections.defaultdict(dict)
    for d in glob.glob(os.path.join(tmp, ".cache", "build", "*/")):
        for f in glob.glob(d + "*.gcda"):
            q = subprocess.run(["gcov", "-j", "-t", "-o", d, f], cwd=d, stdout=subprocess.PIPE, stderr=subprocess.DEVNULL)
            try:
                j = json.loads(q.stdout)
            except ValueError:
                continue
            for fl in j["files"]:
                if fl["file"].startswith("/repo/"):
                    c = cov[fl["file"]]
                    for l in fl["lines"]:
                        c[l["line_number"]] = c.get(l["line_number"], 0) + l["count"]
    for fn in sorted(cov):
        c = cov[fn]
        print("%-55s %4d/%4d  not reached: %s" % (fn[6:], sum(1 for v in c.values() if v > 0), len(c), sorted(k for k, v in c.items() if v == 0)))
finally:
    shutil.rmtree(tmp, ignore_errors=True)
