#!/bin/bash
# Run once after a fresh restore, offline.  Nothing repo-dependent is built
# here (checks rebuild what they need from /repo's working tree); this only
# verifies the tools and pre-parses the specification.
set -e
cd "$(dirname "$0")/.."
for t in java g++ clang++-14 python3 jq; do command -v $t >/dev/null || { echo "missing tool: $t"; exit 1; }; done
test -f /opt/veriftools/tla/tla2tools.jar
mkdir -p evidence .cache .work replays
cd spec
for m in Apalache_Index ExamplesAlg MC_Ast Trace_Stateless Trace_Life MC_Sup MC_Spl MC_Ops MC_Gen MC_Life MC_Interp MC_Fp MC_Sharing Examples MC_Ex; do
  java -cp /opt/veriftools/tla/tla2tools.jar:/opt/veriftools/tla/CommunityModules-deps.jar tla2sany.SANY $m.tla >/dev/null 2>&1 || { echo "SANY failed on $m"; exit 1; }
done
echo "setup ok"
