#!/usr/bin/env python3
"""./check <ID> [--tier quick|thorough] [--replay <path>]

Decides one property of /verif/properties.jsonl for /repo's current working
tree with the TLA+ specification in /verif/spec (see DESIGN.md).
"""
import argparse
import collections
import json
import os
import sys
import time

sys.path.insert(0, os.path.dirname(os.path.abspath(__file__)))
import vlib
from vlib import MachineryFailure, BuildError, log

EXACT_SOURCES = ["vh_main.cpp", "vh_support.cpp", "vh_spline.cpp", "vh_gen.cpp", "vh_interp.cpp"]

# ------------------------------------------------------------------ stateless families
# family -> (MC spec, base cfg)
FAMILIES = {
    "Sup": ("MC_Sup", "MC_Sup.cfg"),
    "Spl": ("MC_Spl", "MC_Spl.cfg"),
    "Ops": ("MC_Ops", "MC_Ops.cfg"),
    "Gen": ("MC_Gen", "MC_Gen.cfg"),
    "Interp": ("MC_Interp", "MC_Interp.cfg"),
    "Fp": ("MC_Fp", "MC_Fp.cfg"),
    "Ex": ("MC_Ex", "MC_Ex.cfg"),
}
FP_SOURCES = ["vh_main.cpp", "vh_fp.cpp"]
OPS_SOURCES = EXACT_SOURCES + ["vh_ops.cpp"]


def build_family(family, variant, cases_path, subset_lines=None):
    """The exact-scalar harness for a family.  Operator expressions are C++
    template instantiations: for the Ops family the generated translation
    units (one struct per AST TLC enumerated) are part of the build."""
    if family == "Ex":
        ex = [os.path.join(vlib.REPO, "examples", f) for f in ("diffusion.cpp", "spline-potential.cpp", "harmonic-oscillator.cpp", "hydrogen.cpp")]
        return vlib.build(variant, ["vh_main.cpp", "vh_ex.cpp"], name="vh_ex", gen_sources=ex, libs=["-pthread"])
    if family not in ("Ops", "Fp"):
        return vlib.build(variant, EXACT_SOURCES)
    import gen_expr
    all_lines = subset_lines if subset_lines is not None else open(cases_path).read().splitlines()
    gdir = os.path.join(vlib.CACHE, "gen_src", vlib.sha(vlib.tree_hash([cases_path]), "v3",
                                                        vlib.sha("\n".join(sorted(subset_lines))) if subset_lines is not None else "all"))
    marker = os.path.join(gdir, "done")
    if not os.path.exists(marker):
        files, na, nb = gen_expr.gen(all_lines, gdir, 32)
        open(marker, "w").write("%d %d" % (na, nb))
    files = sorted(os.path.join(gdir, f) for f in os.listdir(gdir) if f.endswith(".cpp"))
    if family == "Fp":
        return vlib.build(variant, FP_SOURCES, name="vh_fp", gen_sources=files, libs=["-lquadmath"])
    return vlib.build(variant, OPS_SOURCES, name="vh_ops", gen_sources=files)


def nontrivial(c):
    """A case is non-trivial when at least one operand has an interval / the
    call can succeed or fail in more than the degenerate way."""
    op = c.get("op")

    def iv(s):
        return isinstance(s, dict) and s.get("e", 0) - s.get("s", 0) >= 2

    if op == "ExDiffusion":
        return len(c["pts"]) >= 3
    if op in ("FpEval", "FpApply"):
        return iv(c["a"])
    if op in ("FpBin", "FpBF", "FpInt"):
        return iv(c["a"]) and iv(c["b"])
    if op == "FpInterp":
        return c["x"]["e"] - c["x"]["s"] >= 3
    if op == "FpGen":
        return len(c["knots"]) > c["p"] + 1
    if op == "Interp":
        return c["x"]["e"] - c["x"]["s"] >= 3
    if op == "Gen":
        return len(c["knots"]) > c["p"] + 1
    if op == "OpApply":
        return iv(c["a"])
    if op == "OpBF":
        return iv(c["a"]) and iv(c["b"])
    if op in ("SupBin", "SplBin"):
        return iv(c["a"]) and iv(c["b"])
    if op == "SupTri":
        return iv(c["a"]) and iv(c["b"]) and iv(c["c"])
    if op in ("SupRead", "SupIdx", "SplEval", "SplUn"):
        return iv(c["a"])
    if op == "SplLin":
        return any(iv(s) for s in c["ss"])
    return True


def case_key(c):
    """Equivalence class used for the coverage count: (action, relative
    placement of the windows, orders, grid size)."""
    def w(s):
        return (s.get("s"), s.get("e"), s.get("o"), len(s.get("g", []))) if isinstance(s, dict) else None
    return json.dumps([c.get("op"), w(c.get("a")), w(c.get("b")), w(c.get("c")), c.get("share"), c.get("top"), c.get("i"),
                       c.get("pts") if c.get("op", "").startswith("Ex") else None, c.get("D"), c.get("start"), c.get("shift"), c.get("sexp"), c.get("scale") if c.get("op") == "ExDiffusion" else None, str(c.get("vals"))[:80] if c.get("op") == "ExPotential" else None, c.get("n"), c.get("w"), c.get("order"), c.get("bcs"), c.get("dflt"), len(c.get("y", [])) if isinstance(c.get("y"), list) else None, c.get("x") if c.get("op") == "Interp" else None, c.get("ast"), c.get("e1"), c.get("e2"), c.get("knots"), c.get("p"), c.get("sexp"), c.get("route"), c.get("grid") if c.get("op") == "Gen" else None, [w(f) for f in c.get("fs", [])] if isinstance(c.get("fs"), list) else None])


class Ctx:
    def __init__(self, prop, tier, seed):
        self.prop, self.tier, self.seed = prop, tier, seed
        self.t0 = time.time()
        self.work = vlib.ensure(os.path.join(vlib.WORK, "%s-%s-%d" % (prop, tier, os.getpid())))
        self.violations = []      # (case, event, note)
        self.known = []
        self.cov = collections.OrderedDict(states=0, transitions=0, traces_validated_against_impl=0, evaluations=0,
                                           distinct_nontrivial=0, samples=[], per_action={}, tlc_runs=[])
        self.keys = set()
        self.assumptions = []

    def consts(self, extra=None):
        c = {"TIER": self.tier}
        c.update(extra or {})
        return c


def sample_asts(ctx):
    """Deeper operator expressions (depth 3-4) drawn by TLC's simulator from the
    grammar of module Ops (MC_Ast), seeded with VERIF_SEED."""
    import re
    plan = [(40, 3)] if ctx.tier == "quick" else [(300, 3), (300, 4)]
    key = vlib.sha(vlib.spec_hash(), json.dumps(plan), ctx.seed)
    d = vlib.ensure(os.path.join(vlib.CACHE, "gen", "MC_Ast-%s" % key))
    outp = os.path.join(d, "asts.ndjson")
    if os.path.exists(outp):
        return outp
    seen = set()
    for num, depth in plan:
        raw = os.path.join(d, "raw.csv")
        if os.path.exists(raw):
            os.remove(raw)
        r = vlib.run_tlc("MC_Ast", vlib.cfg_text("MC_Ast.cfg", {"DEPTH": str(depth)}), os.path.join(d, "tlc"), env={"GEN_OUT": raw}, workers=1,
                         timeout=1200, extra=["-simulate", "num=%d" % num, "-depth", str(depth + 3), "-seed", str(ctx.seed)])
        if r["rc"] != 0 or not os.path.exists(raw):
            raise MachineryFailure("MC_Ast failed: %s" % "\n".join(r["out"].splitlines()[-8:]))
        for line in open(raw):
            seen.add(json.loads(line))
        os.remove(raw)
    with open(outp + ".tmp", "w") as f:
        for a in sorted(seen):
            f.write(a + "\n")
    os.rename(outp + ".tmp", outp)
    return outp


def family_gen(ctx, family, consts=None):
    mc, cfg = FAMILIES[family]
    env = {"EXTRA_ASTS": sample_asts(ctx)} if family == "Ops" else None
    return vlib.gen(mc, cfg, ctx.consts(consts), ctx.tier, env=env)


def stateless(ctx, family, ops, variant="exact", prop_view=None, consts=None, case_filter=None, build_subset=False, transform=None,
              build_as=None):
    """Gen -> Exec -> Validate for one stateless family, restricted to `ops`.
    transform: optional rewriting of a generated case (e.g. the same
    interpolation inputs sent to the floating-point entry point)."""
    cases_path, st = family_gen(ctx, family, consts)
    ctx.cov["states"] += st["states"]
    ctx.cov["transitions"] += st["transitions"]
    ctx.cov["tlc_runs"].append(st)
    lines = []
    for l in open(cases_path):
        l = l.rstrip("\n")
        c = json.loads(l)
        if c["op"] in ops and (case_filter is None or case_filter(c)):
            lines.append(json.dumps(transform(c)) if transform else l)
    if not lines:
        raise MachineryFailure("no cases generated for %s/%s" % (family, sorted(ops)))
    if build_as == "fp_plain":
        binp = vlib.build(variant, FP_SOURCES, name="vh_fpi", libs=["-lquadmath"])
    elif variant == "fp":
        try:
            binp = build_family(family, variant, cases_path, lines if build_subset else None)
        except BuildError:
            # the exact scalar (used as the reference of the perturbed pass) does not build on this tree
            log("[build] fp: falling back to the build without the exact twin pass")
            variant = "fp_notwin"
            binp = build_family(family, variant, cases_path, lines if build_subset else None)
    else:
        binp = build_family(family, variant, cases_path, lines if build_subset else None)
    run_and_judge(ctx, family + ("-" + variant if variant != "exact" else ""), binp, lines, prop_view or ctx.prop)


def run_and_judge(ctx, family, binp, lines, view, confirm=True):
    wd = os.path.join(ctx.work, family)
    events, extra = vlib.exec_cases(binp, lines, os.path.join(wd, "exec"))
    # interpolation has no full Level-I model that would show the correct result to fit TLC's integers:
    # an event whose numbers do not fit is not judged (counted as unvalidated), not rejected
    nbig = 0
    if family.startswith("Interp"):
        keep = [i for i, e in enumerate(events) if not ('"big":1' in e and '"op":"Interp"' in e)]
        nbig = len(events) - len(keep)
        if nbig:
            if nbig > max(20, len(events) // 10):
                raise MachineryFailure("%d of %d interpolation results do not fit TLC's integers" % (nbig, len(events)))
            ctx.cov["unvalidated_big_results"] = ctx.cov.get("unvalidated_big_results", 0) + nbig
            lines = [lines[i] for i in keep]
            events = [events[i] for i in keep]
    rejected, n = vlib.validate("Trace_Stateless", "Trace_Stateless.cfg", {"PROP": view}, events, os.path.join(wd, "val"))
    ctx.cov["traces_validated_against_impl"] += n
    ctx.cov["evaluations"] += n
    nun = len(getattr(vlib.validate, "last_unvalidated", []))
    if nun:
        ctx.cov["unvalidated_tlc_overflow"] = ctx.cov.get("unvalidated_tlc_overflow", 0) + nun
        log("[%s] %d event(s) could not be judged: TLC integer overflow while evaluating the contract" % (ctx.prop, nun))
    for l in lines:
        c = json.loads(l)
        ctx.cov["per_action"][c["op"]] = ctx.cov["per_action"].get(c["op"], 0) + 1
        if nontrivial(c):
            ctx.keys.add(case_key(c))
    if len(ctx.cov["samples"]) < 3:
        ctx.cov["samples"].append({"case": json.loads(lines[len(lines) // 2]), "event": json.loads(events[len(lines) // 2])})
    for e in extra:
        ctx.violations.append(({"op": "exit"}, json.loads(e), "harness process failed at exit"))
    ctx.last_events = events
    ctx.last_cases = lines
    for x in events:
        if '"worst"' in x:
            e = json.loads(x)
            for k in ("float", "double", "ldouble"):
                if isinstance(e.get(k), dict):
                    w = ctx.cov.setdefault("worst_ratio_in_eps_S", {})
                    w[k] = max(w.get(k, 0.0), e[k].get("worst", 0.0))
    rej = sorted(rejected)
    if not rej:
        return
    log("[%s] %d event(s) rejected by the specification; confirming" % (ctx.prop, len(rej)))
    # confirmation: re-run the rejected cases on their own (at most 40)
    sub = rej[:40]
    prefixes = {}
    if confirm:
        ev2, _ = vlib.exec_cases(binp, [lines[i] for i in sub], os.path.join(wd, "exec2"), nshards=1)
        rej2, _ = vlib.validate("Trace_Stateless", "Trace_Stateless.cfg", {"PROP": view}, ev2, os.path.join(wd, "val2"), nshards=1)
        confirmed = [(sub[k], ev2[k]) for k in sorted(rej2)]
        lone = [sub[k] for k in range(len(sub)) if k not in rej2]
        if lone:
            # not reproduced by the cases on their own: the outcome may depend on what the process executed before
            # (a cache, a static, a hint).  Re-run the whole list with the same sharding; a case rejected again in
            # the same place is confirmed, and its replay record carries the cases that ran before it in its process.
            ev3, _ = vlib.exec_cases(binp, lines, os.path.join(wd, "exec3"))
            rej3, _ = vlib.validate("Trace_Stateless", "Trace_Stateless.cfg", {"PROP": view}, [ev3[i] for i in lone], os.path.join(wd, "val3"), nshards=1)
            nsh = vlib.shard_count(len(lines))
            for k in sorted(rej3):
                i = lone[k]
                confirmed.append((i, ev3[i]))
                prefixes[i] = [json.loads(lines[j]) for j in range(i % nsh, i, nsh)][-4000:]
            if len(rej3) < len(lone):
                log("[%s] %d rejection(s) did not reproduce and are not reported" % (ctx.prop, len(lone) - len(rej3)))
            if rej3:
                log("[%s] %d rejection(s) reproduce only after the calls that preceded them in the same process" % (ctx.prop, len(rej3)))
    else:
        confirmed = [(i, events[i]) for i in sub]
    for i, ev in confirmed:
        c = json.loads(lines[i])
        k = vlib.known_match(ctx.prop, c)
        if k:
            ctx.known.append((k, c))
        elif i in prefixes:
            c = dict(c)
            c["_prefix"] = prefixes[i]
            ctx.violations.append((c, json.loads(ev), "%d events rejected in family %s; this one only after the %d calls that preceded it in its process "
                                   "(the result of a call depends on the history of the process)" % (len(rej), family, len(prefixes[i]))))
        else:
            ctx.violations.append((c, json.loads(ev), "%d events rejected in family %s" % (len(rej), family)))



# ------------------------------------------------------------------ sequential histories (Lifecycle)
def gen_histories(ctx, mode, num, depth):
    """TLC generates command histories from MC_Life: random simulation seeded
    with VERIF_SEED ("sim") or every history up to `depth` by BFS ("bfs")."""
    import re
    consts = ctx.consts({"MODE": mode, "DEPTH": str(depth), "NS": "7"})
    key = vlib.sha(vlib.spec_hash(), mode, num, depth, ctx.seed if mode.startswith("sim") else 0)
    d = vlib.ensure(os.path.join(vlib.CACHE, "gen", "MC_Life-%s-%s" % (mode, key)))
    outp, statp = os.path.join(d, "hist.ndjson"), os.path.join(d, "stats.json")
    if os.path.exists(statp):
        return outp, json.load(open(statp))
    # two checks started at the same time must not fill the same cache entry at once
    import fcntl
    lockf = open(os.path.join(d, "lock"), "w")
    fcntl.flock(lockf, fcntl.LOCK_EX)
    if os.path.exists(statp):
        return outp, json.load(open(statp))
    raw = os.path.join(d, "raw.csv")
    if os.path.exists(raw):
        os.remove(raw)
    if mode.startswith("sim"):
        workers = 8
        extra = ["-simulate", "num=%d" % ((num + workers - 1) // workers), "-depth", str(depth + 8), "-seed", str(ctx.seed)]
    else:
        workers, extra = vlib.NCPU, []
    r = vlib.run_tlc("MC_Life", vlib.cfg_text("MC_Life.cfg", consts), os.path.join(d, "tlc"), env={"GEN_OUT": raw},
                     workers=workers, timeout=3000, extra=extra)
    if r["violated"]:
        raise MachineryFailure("MC_Life: invariant %s violated on the model (see %s)" % (r["violated"], d))
    if r["rc"] != 0:
        raise MachineryFailure("MC_Life failed (rc=%s): %s" % (r["rc"], "\n".join(r["out"].splitlines()[-8:])))
    n = 0
    seen = set()
    with open(outp, "w") as f:
        for line in open(raw):
            h = json.loads(line)
            if h in seen:
                continue
            seen.add(h)
            json.loads(h)
            f.write(h + "\n")
            n += 1
    os.remove(raw)
    m = re.search(r"The number of states generated: (\d+)", r["out"])
    states = int(m.group(1)) if m else r["generated"]
    st = {"spec": "MC_Life", "mode": mode, "histories": n, "states": r["distinct"] or states, "transitions": states,
          "tlc_wall_s": round(r["wall"], 1), "depth": depth}
    with open(statp + ".tmp", "w") as fh:
        json.dump(st, fh)
    os.replace(statp + ".tmp", statp)
    return outp, st


def lifecycle(ctx, view, variants=("exact", "exact_checks"), bfs=True, nsim=None):
    import concurrent.futures as cf
    import subprocess
    quick = ctx.tier == "quick"
    sets = [gen_histories(ctx, "sim", nsim or (320 if quick else 5000), 12 if quick else 20)]
    # the same state machine with the long grid L16 as the shared grid (size-dependent paths inside histories)
    sets.append(gen_histories(ctx, "simbig", (nsim or 320) // 4 if quick else 1000, 12 if quick else 16))
    if bfs:
        sets.append(gen_histories(ctx, "bfs", 0, 2))
    all_hists = []
    for p, st in sets:
        ctx.cov["states"] += st["states"]
        ctx.cov["transitions"] += st["transitions"]
        ctx.cov["tlc_runs"].append(st)
        all_hists.append([json.loads(l) for l in open(p)])
    if not all_hists[0]:
        raise MachineryFailure("no histories generated")
    for variant in variants:
        # the self-check build (BSPLINE_ADD_TEST_CHECKS) replays the simulated histories only
        hists = all_hists[0] + all_hists[1] + (all_hists[2] if bfs and (variant == "exact" or not quick) else [])
        binp = vlib.build(variant, ["vh_life.cpp"], name="vh_life")
        wd = vlib.ensure(os.path.join(ctx.work, "life-" + variant))
        nsh = min(vlib.NCPU, max(1, len(hists) // 20))
        shards = [hists[i::nsh] for i in range(nsh)]

        unval = [0]

        def run(si):
            rejected = []
            todo = shards[si]
            steps = 0
            for attempt in range(12):
                if not todo:
                    break
                sp, tp = os.path.join(wd, "script.%d.ndjson" % si), os.path.join(wd, "trace.%d.ndjson" % si)
                starts = []
                with open(sp, "w") as f:
                    n = 0
                    for h in todo:
                        starts.append(n)
                        f.write('{"op":"Reset"}\n')
                        for c in h:
                            f.write(json.dumps(c) + "\n")
                        n += 1 + len(h)
                if os.path.exists(tp):
                    os.remove(tp)
                try:
                    p = subprocess.run([binp, sp, tp], stdout=subprocess.PIPE, stderr=subprocess.PIPE, timeout=900)
                    rc, err = p.returncode, p.stderr.decode(errors="replace")
                except subprocess.TimeoutExpired:
                    rc, err = -9, "timeout"
                got = len(open(tp).read().splitlines()) if os.path.exists(tp) else 0
                if rc != 0 or got < n:
                    # crash inside a history: that history is a violation candidate; drop it and go on
                    hi = max(k for k, s0 in enumerate(starts) if s0 <= got)
                    rejected.append((todo[hi], got - starts[hi], {"op": "CRASH", "rc": rc, "report": err[-1500:]}))
                    todo = todo[:hi] + todo[hi + 1:]
                    continue
                r = vlib.run_tlc("Trace_Life", vlib.cfg_text("Trace_Life.cfg", {"PROP": view}), os.path.join(wd, "v%d" % si),
                                 env={"TRACE": tp}, workers=1, xmx="3g", timeout=3000)
                import re
                m = re.search(r"The depth of the complete state graph search is (\d+)", r["out"])
                overflow = "Overflow when computing" in r["out"]
                if (not r["completed"] and not overflow) or not m:
                    raise MachineryFailure("Trace_Life did not complete: %s" % "\n".join(r["out"].splitlines()[-10:]))
                depth = int(m.group(1))
                if overflow:
                    # TLC's integers overflowed while judging the step behind the accepted prefix: that history is
                    # dropped as unvalidated (neither accepted nor rejected) and the rest of the shard goes on
                    bad = min(depth, n - 1)
                    hi = max(k for k, s0 in enumerate(starts) if s0 <= bad)
                    unval[0] += 1
                    steps += starts[hi]
                    todo = todo[hi + 1:]
                    continue
                if depth >= n + 1:
                    steps += n
                    break
                # line `depth` (1-based) was not explained by the specification
                bad = depth - 1
                hi = max(k for k, s0 in enumerate(starts) if s0 <= bad)
                ev = json.loads(open(tp).read().splitlines()[bad])
                rejected.append((todo[hi], bad - starts[hi], ev))
                steps += starts[hi]
                todo = todo[hi + 1:]   # everything before was accepted; continue behind the rejected history
            for f in (sp, tp):
                if os.path.exists(f):
                    os.remove(f)
            return rejected, steps

        with cf.ThreadPoolExecutor(nsh) as ex:
            results = list(ex.map(run, range(nsh)))
        if unval[0]:
            ctx.cov["unvalidated_histories_tlc_overflow"] = ctx.cov.get("unvalidated_histories_tlc_overflow", 0) + unval[0]
            if unval[0] > max(10, len(hists) // 10):
                raise MachineryFailure("TLC integer overflow on %d histories" % unval[0])
        for rejected, steps in results:
            ctx.cov["traces_validated_against_impl"] += steps
            ctx.cov["evaluations"] += steps
            for h, pos, ev in rejected:
                k = vlib.known_match(ctx.prop, ev)
                if k:
                    ctx.known.append((k, ev))
                else:
                    ctx.violations.append(({"op": "History", "variant": variant, "history": h, "failed_at": pos}, ev,
                                           "step %d of a %d-command history was not explained by Trace_Life (view %s)" % (pos, len(h), view)))
    hists = [h for hs in all_hists for h in hs]
    for h in hists:
        for c in h[6:]:
            ctx.cov["per_action"][c["op"]] = ctx.cov["per_action"].get(c["op"], 0) + 1
        ctx.keys.add(json.dumps([c["op"] for c in h[6:]]))
    ctx.cov["histories"] = len(hists)
    if len(ctx.cov["samples"]) < 3:
        ctx.cov["samples"].append({"history": hists[len(hists) // 2]})


def valgrind_pass(ctx, thin=1):
    """Uninitialised reads are invisible to ASan/UBSan: a cross-section of the
    cases runs in the plain exact harness under valgrind memcheck."""
    import subprocess, zlib
    pick = lambda c, m: zlib.crc32(json.dumps(c, sort_keys=True).encode()) % m == 0
    n = 0
    for fam, ops, m in (("Spl", {"SplUn", "SplBin", "SplLin", "SplEval"}, 150), ("Gen", {"Gen"}, 60), ("Interp", {"Interp"}, 10), ("Ops", {"OpApply", "OpBF"}, 300)):
        cp, _ = family_gen(ctx, fam)
        lines = [l for l in open(cp).read().splitlines() if (lambda c: c["op"] in ops and pick(c, m * thin))(json.loads(l))]
        binp = build_family(fam, "exact", cp)
        wd = vlib.ensure(os.path.join(ctx.work, "vg"))
        inp, outp = os.path.join(wd, "c.ndjson"), os.path.join(wd, "t.ndjson")
        open(inp, "w").write("\n".join(lines) + "\n")
        if os.path.exists(outp):
            os.remove(outp)
        p = subprocess.run(["valgrind", "-q", "--error-exitcode=88", "--track-origins=yes", binp, inp, outp], stdout=subprocess.PIPE, stderr=subprocess.PIPE, timeout=3000)
        n += len(lines)
        if p.returncode != 0:
            ctx.violations.append(({"op": "Valgrind", "family": fam, "cases": len(lines)}, {"rc": p.returncode, "report": p.stderr.decode(errors="replace")[-3000:]},
                                   "valgrind memcheck reports an error in the exact harness run"))
    ctx.cov["valgrind_cases"] = n
    ctx.cov["evaluations"] += n


def c09(ctx):
    """Replay of the TLC-generated cases of every family in the sanitizer build
    (ASan + UBSan + libstdc++ assertions): an observer report is an event no
    specification action explains.  The checked accessors' contract (throw for
    every index outside the view, incl. 2^64-k) is validated by TLC."""
    import zlib
    quick = ctx.tier == "quick"
    pick = (lambda c, m: zlib.crc32(json.dumps(c, sort_keys=True).encode()) % m == 0) if quick else (lambda c, m: True)
    stateless(ctx, "Sup", {"SupRead", "SupIdx", "SupBin", "SupTri", "SupNew", "GridAt", "GridFind", "GridNew"}, variant="san")
    stateless(ctx, "Spl", {"SplNew", "SplEval", "SplUn", "SplBin", "SplLin"}, variant="san", case_filter=lambda c: pick(c, 3))
    stateless(ctx, "Gen", {"Gen"}, variant="san", case_filter=lambda c: pick(c, 3))
    stateless(ctx, "Interp", {"Interp"}, variant="san")
    # operator expressions: every placement of a spline factor relative to the operand, forms, primitives
    def opsel(c):
        if c["op"] == "OpApply":
            return (len(c["fs"]) > 0 and (not quick or c["ast"]["k"] in ("Spl", "Prod", "Sum", "ScalL"))) or (c["tag"] == "prim" and pick(c, 4)) or c["tag"] == "hi" or (not quick)
        return c["tag"] == "foreign" or len(c["fs"]) > 0 or pick(c, 16)
    stateless(ctx, "Ops", {"OpApply", "OpBF"}, variant="san", case_filter=opsel, build_subset=quick)
    lifecycle(ctx, "C09", variants=("san",), bfs=not quick, nsim=200 if quick else None)
    valgrind_pass(ctx, 3 if quick else 1)
    ctx.assumptions.append("absence of undefined behaviour is observed by ASan/UBSan/_GLIBCXX_ASSERTIONS on the enumerated executions only; the observers, not TLC, detect the event (DESIGN.md 2.6)")


def c10(ctx):
    lifecycle(ctx, "C10")
    stateless(ctx, "Spl", {"SplUn", "SplBin", "SplLin", "SplNew"}, prop_view="C10")
    stateless(ctx, "Sup", {"SupBin", "SupNew", "GridNew"}, prop_view="C10")
    # floating-point grids built from NaN, +/-Inf and -0.0: whatever comes to life is strictly increasing
    stateless(ctx, "Fp", {"FpGridNew"}, variant="fp", build_as="fp_plain", prop_view="C10")


def c14(ctx):
    lifecycle(ctx, "C14")
    stateless(ctx, "Spl", {"SplUn", "SplBin", "SplLin", "SplEval", "SplNew"}, prop_view="C14")
    # read accessors, index translations, window algebra: operands are named non-const objects in the sequential harness
    stateless(ctx, "Sup", {"GridFind", "GridAt", "SupNew", "SupRead", "SupIdx", "SupBin", "SupTri"}, prop_view="C14")
    stateless(ctx, "Gen", {"Gen"}, prop_view="C14", case_filter=lambda c: c["p"] <= 2)
    stateless(ctx, "Ops", {"OpApply", "OpBF"}, prop_view="C14", case_filter=lambda c: c["tag"] in ("expr", "bf"))
    # interpolation called with named (non-const) data: support, ordinates and boundary conditions stay as they were
    stateless(ctx, "Interp", {"Interp"}, prop_view="C14")
    interp_fp(ctx)


def c08(ctx):
    stateless(ctx, "Spl", {"SplBin", "SplLin"}, case_filter=lambda c: not same_grid(c) or c.get("share") == 0)
    stateless(ctx, "Sup", {"SupBin"})
    stateless(ctx, "Ops", {"OpApply", "OpBF"}, case_filter=lambda c: c["tag"] == "foreign" or c.get("fshare") == 0)
    stateless(ctx, "Gen", {"Gen"}, case_filter=lambda c: c["route"] == 1)
    # numerical integration across grids (double / long double)
    stateless(ctx, "Fp", {"FpIntX"}, variant="fp", build_as="fp_plain")
    lifecycle(ctx, "C08", variants=("exact",), bfs=False)


# ------------------------------------------------------------------ properties
def c12(ctx):
    stateless(ctx, "Interp", {"Interp"})
    interp_fp(ctx)


def interp_fp(ctx):
    # the bundled dense solver (Eigen) in float, double and long double: residuals of the same conditions at backward-error
    # level; the named operands (support, ordinates, boundary conditions) compared with untouched copies after the call
    def valid(c):
        n = c["x"]["e"] - c["x"]["s"]
        return n >= 2 and n == len(c["y"]) and all(1 <= b["d"] <= c["order"] for b in c["bcs"]) and solvable(c)
    def solvable(c):
        # sets for which the specification shows unique solvability (Interp!KnownSolvable)
        o, b = c["order"], c["bcs"]
        one = lambda node: all(x["node"] == node for x in b) and sorted(x["d"] for x in b) == list(range(1, o))
        return o == 1 or (o <= 3 and c["dflt"] == 1) or one(0) or one(1)
    stateless(ctx, "Interp", {"Interp"}, variant="fp", case_filter=valid, transform=lambda c: dict(c, op="FpInterp"), build_as="fp_plain")
    ctx.assumptions.append("floating half: max residual of the interpolation conditions <= 2^20 eps (||M|| ||x|| + ||b||), evaluated by the harness in __float128, for the sets the specification shows uniquely solvable")


def apalache_index(ctx):
    """The integer index algebra over unbounded integers and the true 2^64
    modulus (SMT, Apalache): the laws must hold, the pinned formulations must
    be refuted."""
    import subprocess, shutil
    out = os.path.join(ctx.work, "apalache")
    res = {}
    for inv, want_error in (("LatticeLaws", False), ("IndexLaws", False), ("BugIv", True), ("BugAt", True)):
        try:
            p = subprocess.run(["apalache-mc", "check", "--length=0", "--inv=" + inv, "--out-dir=" + out, "Apalache_Index.tla"], cwd=vlib.SPEC,
                               stdout=subprocess.PIPE, stderr=subprocess.STDOUT, text=True, timeout=900)
        except (subprocess.TimeoutExpired, FileNotFoundError) as e:
            raise MachineryFailure("apalache-mc failed: %s" % e)
        noerr = "The outcome is: NoError" in p.stdout
        err = "The outcome is: Error" in p.stdout
        if not (noerr or err):
            raise MachineryFailure("apalache-mc gave no verdict for %s: %s" % (inv, p.stdout[-800:]))
        res[inv] = "NoError" if noerr else "Error"
        if want_error and noerr:
            raise MachineryFailure("Apalache did not refute the pinned formulation %s: the obligation is vacuous" % inv)
        if not want_error and err:
            ctx.violations.append(({"op": "ApalacheIndex", "inv": inv}, {"output": p.stdout[-2500:]}, "index law %s fails over unbounded integers / modulo 2^64" % inv))
    shutil.rmtree(out, ignore_errors=True)
    ctx.cov["apalache"] = res
    ctx.cov["obligations"] = 4
    ctx.cov["discharged"] = sum(1 for k, v in res.items() if (v == "Error") == k.startswith("Bug"))


def c13(ctx):
    apalache_index(ctx)
    stateless(ctx, "Sup", {"SupRead", "SupIdx", "SupBin", "SupTri", "SupNew", "GridAt", "GridFind", "GridNew"})


def c11(ctx):
    stateless(ctx, "Sup", {"SupNew", "GridNew"})
    stateless(ctx, "Spl", {"SplNew", "SplLin"}, case_filter=lambda c: c["op"] == "SplNew" or len(c["cs"]) != len(c["ss"]) or len(c["ss"]) <= 1)
    stateless(ctx, "Gen", {"Gen"}, case_filter=lambda c: c["p"] <= 2)
    stateless(ctx, "Interp", {"Interp"})
    # special floating-point values (NaN, +/-Inf, -0.0) in float, double and long double grids
    stateless(ctx, "Fp", {"FpGridNew"}, variant="fp", build_as="fp_plain")


def c03(ctx):
    stateless(ctx, "Spl", {"SplUn", "SplBin", "SplLin", "SplNew"}, case_filter=lambda c: same_grid(c))
    # sequences of in-place updates applied to one object
    lifecycle(ctx, "C03", variants=("exact",), bfs=False)


def same_grid(c):
    if c["op"] == "SplBin":
        return c["a"]["g"] == c["b"]["g"]
    if c["op"] == "SplLin":
        return all(s["g"] == c["ss"][0]["g"] for s in c["ss"])
    return True


def c02(ctx):
    stateless(ctx, "Spl", {"SplEval"})
    # evaluation of objects with a past: after moves, (self-)assignments, in-place updates, failed calls
    lifecycle(ctx, "C02", variants=("exact",))


def c15(ctx):
    stateless(ctx, "Spl", {"SplUn", "SplBin"})
    # signed zeros (float, double, long double): splines that denote zero must be reported zero
    stateless(ctx, "Fp", {"FpBin"}, variant="fp", build_as="fp_plain")


def c01(ctx):
    stateless(ctx, "Gen", {"Gen"})
    # every scalar type, any positive spacing: float / double / long double incl. knots scaled by 2^-60 (spacings far below eps)
    stateless(ctx, "Fp", {"FpGen"}, variant="fp", build_subset=True)


def c04(ctx):
    err = None
    try:
        stateless(ctx, "Ops", {"OpApply"}, case_filter=lambda c: c["tag"] in ("prim", "hi"))
    except BuildError as e:
        err = e         # the exact archetype does not build (C19 reports that): the floating half below still decides
    # the primitive operators in float, double, long double (E and S from TLC), incl. operands whose coefficients
    # are all far below machine epsilon in absolute terms
    stateless(ctx, "Fp", {"FpApply"}, variant="fp", case_filter=lambda c: c["ast"]["k"] in ("Id", "X", "Dx"))
    if err is not None and not ctx.violations:
        raise err


def c05(ctx):
    stateless(ctx, "Ops", {"OpApply"}, case_filter=lambda c: c["tag"] == "expr")


def c06(ctx):
    stateless(ctx, "Ops", {"OpBF"}, case_filter=lambda c: c["tag"] == "bf")


def c07(ctx):
    stateless(ctx, "Ops", {"OpApply", "OpBF"}, case_filter=lambda c: c["tag"] in ("bf", "expr", "prim"))


def fp_family(ctx, ops, variants):
    """Floating-point replay: every variant must satisfy the relation (judged
    per event by TLC on the verdict the harness computed from the spec's E and
    S); the values must be bit-identical between the first two variants
    (self-checks off / on)."""
    digests = []
    for v in variants:
        stateless(ctx, "Fp", ops, variant=v)
        digests.append({c: {k: e[k]["digest"] for k in ("float", "double", "ldouble") if k in e and isinstance(e[k], dict)}
                        for c, e in zip(ctx.last_cases, (json.loads(x) for x in ctx.last_events))})
    if len(digests) >= 2:
        common = [c for c in digests[0] if c in digests[1]]
        if len(common) < len(digests[0]):
            raise MachineryFailure("the two floating builds did not run the same cases")
        diff = [c for c in common if digests[0][c] != digests[1][c]]
        ctx.cov["bitwise_compared"] = len(common)
        for c in diff[:5]:
            ctx.violations.append(({"op": "SelfChecksChangeValues", "variants": list(variants[:2]), "case": json.loads(c)}, {"digests": [digests[0][c], digests[1][c]]},
                                   "%d results differ bitwise between builds %s and %s" % (len(diff), variants[0], variants[1])))
    ctx.assumptions.append("TLC supplies the exact value E and the magnitude S (abs-mode Level I, an upper bound of the sum of absolute values "
                           "of the terms); the inequality |F-E| <= 2^20 eps S is evaluated by the harness in __float128")


def c16(ctx):
    quick = ctx.tier == "quick"
    fp_family(ctx, {"FpGen", "FpEval", "FpBin", "FpApply", "FpBF"}, ("fp", "fp_checks") if quick else ("fp", "fp_checks", "fp_O0", "fp_O3", "fp_clang"))


def c17(ctx):
    quick = ctx.tier == "quick"
    fp_family(ctx, {"FpInt"}, ("fp",) if quick else ("fp", "fp_checks", "fp_O0", "fp_O3"))


def c18(ctx):
    """(1) TLC explores every interleaving of the Sharing model (safety,
    determinism, termination under weak fairness) and must REJECT the three
    negative controls.  (2) TLC-generated cases are run by N threads at the
    same time on shared const operand/operator/form objects: per-thread logs
    must be identical to the sequential log (exact scalar: text; double: bit
    patterns), the sequential and thread logs are validated by TLC against
    the sequential contracts, grid use counts at the quiescent point must
    match the number of live handles, and the TSan build observes races."""
    import zlib
    quick = ctx.tier == "quick"
    wd = vlib.ensure(os.path.join(ctx.work, "sharing"))
    base = {"NT": "2" if quick else "3"}
    r = vlib.run_tlc("MC_Sharing", vlib.cfg_text("MC_Sharing.cfg", base), os.path.join(wd, "m"), timeout=3000, xmx="16g")
    if r["violated"] or not r["completed"] or r["errors"]:
        ctx.violations.append(({"op": "SharingModel"}, {"violated": r["violated"], "errors": r["errors"][:3]},
                               "the sharing protocol model violates its own properties"))
    ctx.cov["states"] += r["distinct"]
    ctx.cov["transitions"] += r["generated"]
    ctx.cov["tlc_runs"].append({"spec": "MC_Sharing", "states": r["distinct"], "transitions": r["generated"], "tlc_wall_s": round(r["wall"], 1), "consts": base})
    for nc in ("AtomicCount", "GuardedStatic", "LocalScratch"):
        c = dict(base)
        c["NT"] = "2"
        c[nc] = "FALSE"
        rn = vlib.run_tlc("MC_Sharing", vlib.cfg_text("MC_Sharing.cfg", c), os.path.join(wd, "n" + nc), timeout=1200)
        if not rn["violated"] and not any("Temporal" in e or "violated" in e for e in rn["errors"]):
            raise MachineryFailure("negative control %s=FALSE was not rejected by TLC: the Sharing properties are vacuous" % nc)
        ctx.cov["tlc_runs"].append({"spec": "MC_Sharing", "negative_control": nc, "rejected_by": rn["violated"]})

    pick = lambda c, m: zlib.crc32(json.dumps(c, sort_keys=True).encode()) % m == 0
    fams = []
    cp, st = family_gen(ctx, "Spl")
    # incl. pairs on equal grids held in distinct shared instances (share = 0)
    lines = [l for l in open(cp).read().splitlines()
             if (lambda c: c["op"] in ("SplEval", "SplUn", "SplBin") and same_grid(c) and (pick(c, 40 if quick else 8) or (c.get("share") == 0 and pick(c, 4 if quick else 2))))(json.loads(l))]
    fams.append(("Spl", cp, lines))
    cp, st = family_gen(ctx, "Gen")
    lines = [l for l in open(cp).read().splitlines() if (lambda c: c["route"] == 0 and len(c["knots"]) >= c["p"] + 2 and c["p"] >= 1 and pick(c, 12 if quick else 3))(json.loads(l))]
    lines = [l for l in lines if '"knots":[]' not in l]
    fams.append(("Gen", cp, lines))
    cp, st = family_gen(ctx, "Ops")
    def opsel(c):
        if c["tag"] in ("foreign", "hi"):
            return False
        if c["op"] == "OpApply":
            return c["ast"]["k"] in ("Spl", "Prod", "Sum", "X", "Dx") and pick(c, 6 if quick else 12)
        return pick(c, 40 if quick else 40)
    lines = [l for l in open(cp).read().splitlines() if opsel(json.loads(l))]
    fams.append(("Ops", cp, lines))
    counts = (2, 8) if quick else (2, 4, 8, 16)
    rounds = 1 if quick else 2
    for fam, cp, lines in fams:
        for variant in ("exact_thr", "exactd", "tsan", "tsand"):
            if quick and variant == "tsand":
                continue
            binp = build_family(fam, variant, cp, lines)
            for nt in counts:
                # three schedules: free-running sweeps; lockstep phases in which neighbouring cases (same operation /
                # instantiation, different data) run at the very same time; "fresh": all threads run the same case in
                # every phase and build the shared objects themselves, so that the FIRST use of every shared object
                # (when lazily initialised state would be filled) happens in all threads at once
                if quick:
                    scheds = ("free", "fresh") if nt == counts[0] else ("lockstep", "fresh")
                else:
                    scheds = ("free", "lockstep", "fresh") * rounds
                for rd, sched in enumerate(scheds):
                    lock = sched
                    seq, ths, q, rc, err = vlib.exec_threaded(binp, lines, os.path.join(wd, "x"), nt, schedule=sched)
                    tag = {"op": "ThreadedRun", "family": fam, "variant": variant, "threads": nt, "schedule": sched}
                    if rc != 0 or "ThreadSanitizer" in err:
                        ctx.violations.append((tag, {"rc": rc, "report": err[-3000:]}, "threaded run failed / data race reported"))
                        continue
                    if len(seq) != len(lines) or any(len(t) != len(lines) for t in ths):
                        raise MachineryFailure("threaded harness produced incomplete logs")
                    for t, tl in enumerate(ths):
                        diff = [i for i in range(len(lines)) if tl[i] != seq[i]]
                        if diff:
                            ctx.violations.append((dict(tag, thread=t, case=json.loads(lines[diff[0]])), {"sequential": seq[diff[0]][:1500], "threaded": tl[diff[0]][:1500]},
                                                   "%d results of thread %d differ from the sequential run" % (len(diff), t)))
                    if q is None or any(a != b for a, b in q):
                        ctx.violations.append((tag, {"quiescent": q}, "use_count of a shared grid block differs from the number of live handles at the quiescent point"))
                    ctx.cov["evaluations"] += len(lines) * nt
                    ctx.cov.setdefault("threaded_runs", []).append({"family": fam, "variant": variant, "threads": nt, "cases": len(lines)})
                    ctx.cov["threaded_runs"][-1]["schedule"] = sched
                    if variant == "exact_thr" and rd == 0 and nt == counts[-1]:
                        # TLC judges the sequential log and the logs of two threads against the sequential contracts
                        for name, evs in (("seq", seq), ("t0", ths[0]), ("tlast", ths[-1])):
                            rej, n = vlib.validate("Trace_Stateless", "Trace_Stateless.cfg", {"PROP": "ALL"}, evs, os.path.join(wd, "val"))
                            ctx.cov["traces_validated_against_impl"] += n
                            for i in sorted(rej)[:5]:
                                ctx.violations.append((json.loads(lines[i]), json.loads(evs[i]), "event of log %s (threaded run) rejected by the specification" % name))
        for l in lines:
            c = json.loads(l)
            ctx.cov["per_action"][c["op"]] = ctx.cov["per_action"].get(c["op"], 0) + 1
            if nontrivial(c):
                ctx.keys.add(case_key(c))
        if len(ctx.cov["samples"]) < 3:
            ctx.cov["samples"].append({"case": json.loads(lines[0]), "threads": list(counts)})
    ctx.assumptions.append("all interleavings are explored in the Sharing model; on the code only the schedules that happen are observed, and a data race is detected by ThreadSanitizer, not by TLC")


def c20(ctx):
    """(a) TLC checks the diffusion solver's skeleton against std::vector's
    preconditions (and must reject the pinned erase(end())); (b) the
    repository's own example objects run TLC-enumerated admissible inputs in a
    plain build and under ASan/UBSan/_GLIBCXX_DEBUG; the contracts of the
    entry points are evaluated with a tolerance and judged per event."""
    wd = vlib.ensure(os.path.join(ctx.work, "examples"))
    r = vlib.run_tlc("Examples", vlib.cfg_text("Examples.cfg", {}), os.path.join(wd, "m"), workers=4, timeout=600)
    if r["violated"] or r["errors"] or not r["completed"]:
        ctx.violations.append(({"op": "ExamplesModel"}, {"violated": r["violated"], "errors": r["errors"][:3]}, "the diffusion skeleton violates a std::vector precondition"))
    ctx.cov["states"] += r["distinct"]
    ctx.cov["transitions"] += r["generated"]
    ctx.cov["tlc_runs"].append({"spec": "Examples", "states": r["distinct"], "transitions": r["generated"]})
    rn = vlib.run_tlc("Examples", vlib.cfg_text("Examples.cfg", {"Bug_EraseEnd": "TRUE"}), os.path.join(wd, "n"), workers=4, timeout=600)
    if "NoUB" not in rn["violated"]:
        raise MachineryFailure("the regression configuration Bug_EraseEnd=TRUE was not rejected: NoUB is vacuous")
    ctx.cov["tlc_runs"].append({"spec": "Examples", "negative_control": "Bug_EraseEnd", "rejected_by": rn["violated"]})
    # (b) the algorithm itself at reduced order inside the specification, with an exact solve
    for P, must in (("2", True), ("3", ctx.tier != "quick")):
        if not must:
            continue
        ra = vlib.run_tlc("ExamplesAlg", vlib.cfg_text("ExamplesAlg.cfg", {"P": P}), os.path.join(wd, "alg" + P), workers=8, timeout=1800)
        if ra["violated"] or ra["errors"] or not ra["completed"]:
            ctx.violations.append(({"op": "ExamplesAlg", "P": P}, {"violated": ra["violated"], "errors": ra["errors"][:3]},
                                   "the diffusion algorithm at reduced order violates its contract on the specification"))
        ctx.cov["states"] += ra["distinct"]
        ctx.cov["transitions"] += ra["generated"]
        ctx.cov["tlc_runs"].append({"spec": "ExamplesAlg", "P": P, "states": ra["distinct"]})
    rb = vlib.run_tlc("ExamplesAlg", vlib.cfg_text("ExamplesAlg.cfg", {"Bug_DropLastTerm": "TRUE"}), os.path.join(wd, "algn"), workers=8, timeout=1800)
    if "ContractOK" not in rb["violated"]:
        raise MachineryFailure("the negative control Bug_DropLastTerm=TRUE was not rejected: ExamplesAlg.ContractOK is vacuous")
    for variant in ("ex", "ex_san"):
        stateless(ctx, "Ex", {"ExDiffusion", "ExPotential", "ExPotentialWin", "ExOscillator", "ExHydrogen"}, variant=variant)
    ctx.cov["explanation"] = ("TLC checked the std::vector preconditions of the diffusion solver's skeleton for every basis size 2..12 (and rejected the pinned "
                              "erase(end()) variant); the repository's example translation units were run on TLC-enumerated admissible inputs in a plain and an "
                              "ASan/UBSan/_GLIBCXX_DEBUG build; boundary values, scale invariance, straight line, eigenvalue shift, n+1/2 and -1/n^2 were "
                              "compared with tolerance 1e-8 (relative to max(1,|values|)) resp. 1e-10")
    ctx.assumptions.append("order-10 double/Eigen numerics are not modelled in TLC: the numeric half is conformance against the contract under a tolerance; UB is observed by sanitizers")


def c19(ctx):
    """The exact-archetype build is the check: harness/c19_inst.cpp explicitly
    instantiates / uses every core template and the generic interpolate with
    Rat (only the documented operations).  Then a cross-section of the exact
    families is replayed with every contract enabled (view ALL)."""
    import subprocess
    inc = ["-I", os.path.join(vlib.REPO, "include"), "-I", vlib.HARNESS]
    wd = vlib.ensure(os.path.join(ctx.work, "c19"))
    programs = 0
    # two archetypes: the plain exact rational, and the same arithmetic in a type that is not trivially
    # copyable and notices when an object was relocated or created bitwise (a user type owning resources)
    for comp, arch in (("g++", []), ("clang++-14", []), ("g++", ["-DVERIF_RAT_SELFCHECK"])):
        exe = os.path.join(wd, "c19_rat_" + comp + ("_self" if arch else ""))
        p = subprocess.run([comp, "-std=c++17", "-O1", "-w", "-DC19_MAIN"] + arch + inc + [os.path.join(vlib.HARNESS, "c19_inst.cpp"), "-o", exe],
                           stdout=subprocess.PIPE, stderr=subprocess.STDOUT, text=True, timeout=900)
        programs += 1
        if p.returncode != 0:
            q = subprocess.run([comp, "-std=c++17", "-O1", "-w", "-DC19_MAIN", "-DC19_SCALAR=double"] + inc +
                               [os.path.join(vlib.HARNESS, "c19_inst.cpp"), "-o", exe + "_double"],
                               stdout=subprocess.PIPE, stderr=subprocess.STDOUT, text=True, timeout=900)
            if q.returncode != 0:
                raise MachineryFailure("the library does not compile even with double (%s):\n%s" % (comp, q.stdout[-2000:]))
            ctx.violations.append(({"op": "CompileWithArchetype", "compiler": comp, "archetype": arch}, {"diagnostics": p.stdout[-6000:]},
                                   "the exact archetype scalar (documented operations only) no longer compiles, double does"))
            return
        r = subprocess.run([exe], stdout=subprocess.PIPE, stderr=subprocess.STDOUT, timeout=300)
        if r.returncode != 0:
            ctx.violations.append(({"op": "RunWithArchetype", "compiler": comp, "archetype": arch}, {"rc": r.returncode, "output": r.stdout.decode(errors="replace")[-2000:]},
                                   "results with the exact field type are not exact / the run failed"))
            return
    ctx.cov["programs"] = programs
    import zlib
    pick = lambda c: zlib.crc32(json.dumps(c, sort_keys=True).encode()) % 8 == 0
    stateless(ctx, "Gen", {"Gen"}, prop_view="ALL", case_filter=lambda c: c["p"] <= 2 and c["route"] == 0)
    stateless(ctx, "Ops", {"OpApply", "OpBF"}, prop_view="ALL", case_filter=lambda c: c["tag"] in ("prim", "expr", "bf") and pick(c))
    stateless(ctx, "Spl", {"SplBin", "SplUn", "SplEval", "SplLin"}, prop_view="ALL", case_filter=pick)
    # the same cross-section (splines, generator, interpolation) with the self-checking archetype
    stateless(ctx, "Spl", {"SplBin", "SplUn", "SplEval", "SplLin", "SplNew"}, prop_view="ALL", case_filter=pick, variant="exact_self")
    stateless(ctx, "Gen", {"Gen"}, prop_view="ALL", case_filter=lambda c: c["p"] <= 2 and c["route"] == 0, variant="exact_self")
    stateless(ctx, "Interp", {"Interp"}, prop_view="ALL", variant="exact_self")
    ctx.cov["explanation"] = ("harness/c19_inst.cpp (explicit instantiation + use of every core template and interpolate<Rat,.,GaussSolver>) "
                              "compiled with g++ 12 and clang++ 14 against the archetype scalar Rat and ran with exact results; "
                              "a cross-section of the exact conformance families was replayed with every contract enabled")


PROPS = {
    "C08": dict(fn=c08, level="model_checking"),
    "C09": dict(fn=c09, level="model_checking"),
    "C10": dict(fn=c10, level="model_checking"),
    "C14": dict(fn=c14, level="model_checking"),
    "C16": dict(fn=c16, level="exploration"),
    "C17": dict(fn=c17, level="exploration"),
    "C18": dict(fn=c18, level="model_checking"),
    "C19": dict(fn=c19, level="other"),
    "C20": dict(fn=c20, level="other"),
    "C01": dict(fn=c01, level="model_checking"),
    "C04": dict(fn=c04, level="model_checking"),
    "C05": dict(fn=c05, level="model_checking"),
    "C06": dict(fn=c06, level="model_checking"),
    "C07": dict(fn=c07, level="model_checking"),
    "C02": dict(fn=c02, level="model_checking"),
    "C03": dict(fn=c03, level="model_checking"),
    "C11": dict(fn=c11, level="model_checking"),
    "C12": dict(fn=c12, level="model_checking"),
    "C13": dict(fn=c13, level="model_checking"),
    "C15": dict(fn=c15, level="model_checking"),
}

ASSUME_COMMON = [
    "TLC 1.8 evaluates the specification correctly; rationals are exact (normalised pairs, 32-bit, overflow is a TLC error)",
    "the conformance harness (harness/*.cpp, ~1 kLoC) projects real objects through public accessors faithfully",
    "bounded domains (spec/Domains.tla) stand for all inputs by the small-scope arguments of DESIGN.md 2.5",
]


def finish(ctx, level):
    ctx.cov["distinct_nontrivial"] = len(ctx.keys)
    if not ctx.cov["samples"]:
        ctx.cov["samples"].append({"note": "no case was executed", "violations": [n for _, _, n in ctx.violations][:3]})
    ctx.cov["rule"] = ("cases are enumerated exhaustively by TLC from the bounded domains of spec/Domains.tla "
                       "(one case per explored transition of the MC_* specification); distinct_nontrivial counts distinct "
                       "(action, window placement of each operand, orders, grid size, index argument) classes among cases "
                       "in which every spline/support operand has at least one interval")
    ctx.cov["exhaustive"] = True
    nviol = len(ctx.violations)
    for k, c in ctx.known[:50]:
        print("KNOWN-FINDING: property=%s %s" % (ctx.prop, k.get("text", "")))
    shown = 0
    for c, ev, note in ctx.violations:
        if shown >= 20:
            break
        p = vlib.write_replay(ctx.prop, {"property": ctx.prop, "tier": ctx.tier, "case": c, "event": ev, "note": note})
        print("VIOLATION property=%s replay=%s" % (ctx.prop, p))
        shown += 1
    vlib.write_evidence(ctx.prop, ctx.tier, ctx.seed, level, ctx.cov, ASSUME_COMMON + ctx.assumptions,
                        time.time() - ctx.t0, nviol)
    return 1 if nviol else 0


def main():
    ap = argparse.ArgumentParser()
    ap.add_argument("prop")
    ap.add_argument("--tier", default=os.environ.get("VERIF_TIER", "quick"), choices=["quick", "thorough"])
    ap.add_argument("--replay")
    a = ap.parse_args()
    seed = int(os.environ.get("VERIF_SEED", "1"))
    if a.prop not in PROPS:
        print("unknown property", a.prop)
        return 2
    ctx = Ctx(a.prop, a.tier, seed)
    import shutil
    try:
        if a.replay:
            return replay(ctx, a.replay)
        PROPS[a.prop]["fn"](ctx)
        return finish(ctx, PROPS[a.prop]["level"])
    except BuildError as e:
        log("MACHINERY FAILURE (build): %s\n%s" % (e, e.tail))
        return 2
    except MachineryFailure as e:
        log("MACHINERY FAILURE: %s" % e)
        return 2
    finally:
        if os.environ.get("VERIF_KEEP_WORK") != "1":
            shutil.rmtree(ctx.work, ignore_errors=True)


def replay(ctx, path):
    """Re-executes the recorded case against the current tree with the binary
    its family uses and has it judged the same way as in the check."""
    import subprocess, re
    r = json.load(open(path))
    c = r["case"]
    op = c.get("op", "")
    view = r.get("property", ctx.prop)
    if op == "History":
        # one command history: executed by the lifecycle harness, validated sequentially by Trace_Life
        variant = c.get("variant", "exact")
        binp = vlib.build(variant, ["vh_life.cpp"], name="vh_life")
        wd = vlib.ensure(os.path.join(ctx.work, "replay"))
        sp, tp = os.path.join(wd, "s.ndjson"), os.path.join(wd, "t.ndjson")
        with open(sp, "w") as f:
            f.write('{"op":"Reset"}\n' + "\n".join(json.dumps(x) for x in c["history"]) + "\n")
        n = 1 + len(c["history"])
        p = subprocess.run([binp, sp, tp], stdout=subprocess.PIPE, stderr=subprocess.PIPE, timeout=900)
        got = len(open(tp).read().splitlines()) if os.path.exists(tp) else 0
        bad = None
        if p.returncode != 0 or got < n:
            bad = "the harness died at step %d (rc=%d)" % (got, p.returncode)
        else:
            t = vlib.run_tlc("Trace_Life", vlib.cfg_text("Trace_Life.cfg", {"PROP": view}), os.path.join(wd, "v"), env={"TRACE": tp}, workers=1, timeout=3000)
            m = re.search(r"The depth of the complete state graph search is (\d+)", t["out"])
            if not m:
                raise MachineryFailure("Trace_Life did not complete on the replayed history")
            if int(m.group(1)) < n + 1:
                bad = "step %d is not explained by Trace_Life" % (int(m.group(1)) - 1)
        if bad:
            print("VIOLATION property=%s replay=%s" % (ctx.prop, path))
            print(bad)
        return 1 if bad else 0
    if op in ("ThreadedRun", "SharingModel", "CompileWithArchetype", "RunWithArchetype", "SelfChecksChangeValues", "ExamplesModel", "ExamplesAlg", "Apalache", "CRASH"):
        log("this record describes a whole run, not one case: re-run ./check %s --tier %s" % (ctx.prop, r.get("tier", "quick")))
        return 2
    if op in ("OpApply", "OpBF"):
        cases_path, _ = family_gen(ctx, "Ops")
        binp = build_family("Ops", "exact", cases_path)
    elif op in ("FpGridNew", "FpIntX", "FpInterp"):
        binp = vlib.build("fp", FP_SOURCES, name="vh_fpi", libs=["-lquadmath"])
    elif op.startswith("Fp"):
        cases_path, _ = family_gen(ctx, "Fp")
        binp = build_family("Fp", "fp", cases_path)
    elif op.startswith("Ex"):
        cases_path, _ = family_gen(ctx, "Ex")
        binp = build_family("Ex", "ex", cases_path)
    else:
        binp = vlib.build("exact", EXACT_SOURCES)
    if "_prefix" in c:
        # history-dependent rejection: the preceding calls of its process are replayed first, in one process
        pre = c.pop("_prefix")
        seq = [json.dumps(x) for x in pre] + [json.dumps(c)]
        wd = vlib.ensure(os.path.join(ctx.work, "replay"))
        evs, _ = vlib.exec_cases(binp, seq, os.path.join(wd, "exec"), nshards=1)
        rej, _ = vlib.validate("Trace_Stateless", "Trace_Stateless.cfg", {"PROP": view}, [evs[-1]], os.path.join(wd, "val"), nshards=1)
        if rej:
            print("VIOLATION property=%s replay=%s" % (ctx.prop, path))
            print(evs[-1][:2000])
        return 1 if rej else 0
    run_and_judge(ctx, "replay", binp, [json.dumps(c)], view, confirm=False)
    for c, ev, note in ctx.violations:
        print("VIOLATION property=%s replay=%s" % (ctx.prop, path))
        print(json.dumps(ev)[:2000])
    return 1 if ctx.violations else 0


if __name__ == "__main__":
    sys.exit(main())
