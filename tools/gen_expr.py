#!/usr/bin/env python3
"""AST -> C++ translation for operator expressions (trusted, ~40 lines of logic).

gen(cases_path, outdir, nunits) collects the distinct ASTs of OpApply cases and
the distinct (e1, e2) pairs of OpBF cases and writes generated translation
units expr_<k>.cpp into outdir.  Returns the list of files."""
import json
import os


def canon(ast):
    return json.dumps(ast, sort_keys=True, separators=(",", ":"))


def lit(t, v):
    n, d = v
    if t in ("int", "uint", "ulong"):
        assert d == 1 and (t == "int" or n >= 0)
        return "(%d%s)" % (n, {"int": "", "uint": "u", "ulong": "ul"}[t])
    if t == "flt":
        return "(%d.0f / %d.0f)" % (n, d)      # a float-typed scalar (dyadic or small integer: exact)
    if t == "dbl":
        return "(%d.0 / %d.0)" % (n, d)        # a double-typed scalar
    return "sc<T>(%d, %d)" % (n, d)


def cxx(a):
    k = a["k"]
    ops = "bspline::operators::"
    if k == "Id":
        return ops + "IdentityOperator{}"
    if k == "X":
        return ops + "X<%d>{}" % a["n"]
    if k == "Dx":
        return ops + "Dx<%d>{}" % a["n"]
    if k == "Spl":
        return ops + "SplineOperator{fs.template get<%d>(%d)}" % (a["vo"], a["slot"] - 1)
    if k == "Neg":
        return "-(%s)" % cxx(a["o"])
    if k in ("Prod", "Sum", "Diff"):
        return "(%s) %s (%s)" % (cxx(a["l"]), {"Prod": "*", "Sum": "+", "Diff": "-"}[k], cxx(a["r"]))
    c, o = lit(a["t"], a["v"]), cxx(a["o"])
    return {"ScalL": "%s * (%s)" % (c, o), "ScalR": "(%s) * %s" % (o, c), "Div": "(%s) / %s" % (o, c),
            "AddSR": "(%s) + %s" % (o, c), "AddSL": "%s + (%s)" % (c, o),
            "SubSR": "(%s) - %s" % (o, c), "SubSL": "%s - (%s)" % (c, o)}[k]


def cstr(s):
    return '"' + s.replace("\\", "\\\\").replace('"', '\\"') + '"'


def gen(case_lines, outdir, nunits=16):
    asts, pairs = {}, {}
    for l in case_lines:
        c = json.loads(l)
        if c["op"] in ("OpApply", "FpApply"):
            asts.setdefault(canon(c["ast"]), c["ast"])
        elif c["op"] in ("OpBF", "FpBF"):
            k1, k2 = canon(c["e1"]), canon(c["e2"])
            asts.setdefault(k1, c["e1"])
            asts.setdefault(k2, c["e2"])
            pairs[(k1, k2)] = True
    apply_keys = set()
    hi_keys = set()          # expressions that are also applied to operands of very high order
    for l in case_lines:
        c = json.loads(l)
        if c["op"] in ("OpApply", "FpApply"):
            apply_keys.add(canon(c["ast"]))
            if c.get("tag") == "hi":
                hi_keys.add(canon(c["ast"]))
    names = {k: "E%d" % i for i, k in enumerate(sorted(asts))}
    os.makedirs(outdir, exist_ok=True)
    items = [("A", k) for k in sorted(apply_keys)] + [("B", p) for p in sorted(pairs)]
    nunits = max(1, min(nunits, len(items)))
    files = []
    for u in range(nunits):
        mine = items[u::nunits]
        need = set()
        for kind, k in mine:
            need |= {k} if kind == "A" else set(k)
        out = ['#include "vh_ops.h"', "namespace verif {", "namespace {"]
        for k in sorted(need):
            out.append("// %s" % k)
            # expressions with float/double literals cannot be built for the exact scalar (no conversion from floating point)
            exactable = "false" if ('"t":"flt"' in k or '"t":"dbl"' in k) else "true"
            out.append("struct %s { static constexpr bool exactable = %s; static constexpr bool hi = %s; template <typename T> static auto make([[maybe_unused]] const Factors<T> &fs) { return %s; } };"
                       % (names[k], exactable, "true" if k in hi_keys else "false", cxx(asts[k])))
        for n, (kind, k) in enumerate(mine):
            if kind == "A":
                out.append("RegApply<%s> ra%d(%s);" % (names[k], n, cstr(k)))
            else:
                out.append("RegBF<%s, %s> rb%d(%s);" % (names[k[0]], names[k[1]], n, cstr(k[0] + "|" + k[1])))
        out += ["}  // namespace", "}  // namespace verif", ""]
        p = os.path.join(outdir, "expr_%02d.cpp" % u)
        with open(p, "w") as f:
            f.write("\n".join(out))
        files.append(p)
    return files, len(apply_keys), len(pairs)


if __name__ == "__main__":
    import sys
    fs, na, nb = gen(open(sys.argv[1]).read().splitlines(), sys.argv[2], int(sys.argv[3]) if len(sys.argv) > 3 else 16)
    print(len(fs), "units;", na, "expressions;", nb, "pairs")
