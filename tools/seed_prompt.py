#!/usr/bin/env python3
"""tools/seed_prompt.py <prop-id> <n> [focus hint...]
Creates a scratch worktree /tmp/seedagent_<id>_<n> of /repo HEAD and writes /tmp/seed_out/prompt_<id>_<n>.txt:
the task text handed to a fresh sub-agent.  The prompt contains the property's text and the worktree only -
nothing from /verif's checks."""
import json, os, subprocess, sys
pid, n = sys.argv[1], sys.argv[2]
hint = ' '.join(sys.argv[3:])
P = {json.loads(l)['id']: json.loads(l) for l in open('/verif/properties.jsonl')}[pid]
wt = f'/tmp/seedagent_{pid}_{n}'
out = f'/tmp/seed_out/{pid}_{n}'
os.makedirs(out, exist_ok=True)
subprocess.run(['git', '-C', '/repo', 'worktree', 'remove', '--force', wt], capture_output=True)
subprocess.run(['git', '-C', '/repo', 'worktree', 'add', '-q', '--detach', wt, 'HEAD'], check=True)
txt = f"""You are helping to evaluate a verification effort for the C++17 header-only library okruz/BSplinebasis
(B-spline basis functions: piecewise-polynomial algebra, operators, analytic bilinear forms, interpolation).
You have your own scratch git worktree of the library at {wt} (work ONLY there; never touch /repo or /verif,
and do not read anything under /verif). The sandbox is offline.

The library is supposed to satisfy this semantic property:

  [{P['id']}] {P['title']}
  {P['statement']}
  Ranges over: {P['quantifier']['text']}

YOUR TASK: write ONE realistic change to the library sources (under {wt}/include, or {wt}/examples if the
property is about the examples) that BREAKS this property while
  (a) the library and its existing test suite still compile,
  (b) the existing test suite still passes (build: cmake -S {wt} -B {wt}/_b -G Ninja >/dev/null && cmake --build {wt}/_b >/dev/null && ctest --test-dir {wt}/_b/tests -j8),
  (c) the change looks like something a maintainer could plausibly write (an optimisation, a refactoring,
      a "simplification", a fast path, a cache, a changed comparison or index computation) - not sabotage,
  (d) it needs something SPECIFIC to manifest - a particular multi-step sequence of operations, an unusual
      input (support placement, multiplicity, special value, extreme index, order combination), a particular
      interleaving of threads, or two cooperating sites that each look fine alone - and NOT something that
      ordinary use would expose at once.
{('Focus hint (to diversify the experiments): ' + hint) if hint else ''}

Also write a demonstration program demo.cpp (a single file with main(), C++17, includes <bspline/Core.h> and/or
other library headers by their <bspline/...> paths; for the examples use "diffusion.h"/"spline-potential.h" etc.;
may use Eigen via <bspline/interpolation/interpolation.h> with -DBSPLINE_INTERPOLATION_USE_EIGEN) that
  - exits 0 on the UNCHANGED library (git stash / the original headers at /repo/include - read-only!),
  - exits 1 (not a crash if avoidable; a crash is acceptable for memory-safety properties) with your change,
  - compiles with: g++ -std=c++17 -O1 -w -I/usr/include/eigen3 -DBSPLINE_INTERPOLATION_USE_EIGEN [-pthread] -I<tree>/include -I<tree>/examples demo.cpp
    (if demo.cpp includes "diffusion.h" or "spline-potential.h" the files <tree>/examples/diffusion.cpp and
    <tree>/examples/spline-potential.cpp are added to the command line).
Verify all of this yourself: build and run the test suite with your change, and run the demo against both trees.

Deliver, in the directory {out}/ :
  patch.diff  - `git -C {wt} diff` of your change (library sources only; must apply to a clean checkout with git apply)
  demo.cpp    - the demonstration
  meta.json   - {{"property": "{P['id']}", "summary": "<what the change does>", "file": "<main file changed>",
                 "needs": "<what is needed for the violation to manifest>", "tests_pass": true}}
When done, remove your build directory {wt}/_b. Reply with a three-line summary of the change.
"""
open(f'/tmp/seed_out/prompt_{pid}_{n}.txt', 'w').write(txt)
print(f'/tmp/seed_out/prompt_{pid}_{n}.txt')
