"""Shared machinery of the /verif checks: TLC runs, harness builds, the
Gen -> Exec -> Validate loop, evidence and verdict handling.

Exit codes of a check: 0 property held on everything explored, 1 violation
(with a `VIOLATION property=<id> replay=<path>` line), 2 machinery failure
(never accompanied by a VIOLATION line).
"""
import concurrent.futures as cf
import glob
import hashlib
import json
import os
import re
import shutil
import subprocess
import sys
import time

VERIF = os.path.dirname(os.path.dirname(os.path.abspath(__file__)))
REPO = os.environ.get("VERIF_REPO", "/repo")
SPEC = os.path.join(VERIF, "spec")
HARNESS = os.path.join(VERIF, "harness")
CACHE = os.path.join(VERIF, ".cache")
WORK = os.path.join(VERIF, ".work")
# runs against a scratch tree (VERIF_REPO=..., seeded-change experiments) must not
# overwrite the evidence of /repo: VERIF_OUT redirects evidence and replays
_OUT = os.environ.get("VERIF_OUT")
REPLAYS = os.path.join(_OUT or VERIF, "replays")
EVIDENCE = os.path.join(_OUT or VERIF, "evidence")
TLA_CP = "/opt/veriftools/tla/tla2tools.jar:/opt/veriftools/tla/CommunityModules-deps.jar"
NCPU = os.cpu_count() or 8


class MachineryFailure(Exception):
    pass


def log(*a):
    print(*a, file=sys.stderr, flush=True)


def sha(*parts):
    h = hashlib.sha256()
    for p in parts:
        h.update(p if isinstance(p, bytes) else str(p).encode())
        h.update(b"\0")
    return h.hexdigest()[:20]


def tree_hash(paths, exts=None):
    h = hashlib.sha256()
    for root in paths:
        if os.path.isfile(root):
            files = [root]
        else:
            files = []
            for d, _, fs in os.walk(root):
                for f in fs:
                    if exts is None or os.path.splitext(f)[1] in exts:
                        files.append(os.path.join(d, f))
        for f in sorted(files):
            h.update(f.encode())
            with open(f, "rb") as fh:
                h.update(fh.read())
    return h.hexdigest()[:20]


def ensure(d):
    os.makedirs(d, exist_ok=True)
    return d


# --------------------------------------------------------------------------- TLC
def cfg_text(base_cfg, consts):
    """Reads spec/<base_cfg> and overrides CONSTANT assignments."""
    txt = open(os.path.join(SPEC, base_cfg)).read()
    for k, v in consts.items():
        val = v if not isinstance(v, str) or v in ("TRUE", "FALSE") or v.isdigit() else '"%s"' % v
        pat = re.compile(r"^(\s*%s\s*=\s*).*$" % re.escape(k), re.M)
        if pat.search(txt):
            txt = pat.sub(lambda m: m.group(1) + str(val), txt)
        else:
            txt = txt.replace("CONSTANTS\n", "CONSTANTS\n  %s = %s\n" % (k, val), 1)
    return txt


def run_tlc(spec, cfg, workdir, env=None, workers=NCPU, xmx="8g", timeout=3600, extra=()):
    """Runs TLC on spec/<spec>.tla with the given cfg text. Returns dict."""
    ensure(workdir)
    cfgp = os.path.join(workdir, spec + ".cfg")
    with open(cfgp, "w") as f:
        f.write(cfg)
    meta = os.path.join(workdir, "meta")
    shutil.rmtree(meta, ignore_errors=True)
    cmd = ["java", "-XX:+UseParallelGC", "-Xmx" + xmx, "-cp", TLA_CP, "tlc2.TLC",
           "-noGenerateSpecTE", "-workers", str(workers), "-metadir", meta, "-config", cfgp] + list(extra) + [spec + ".tla"]
    e = dict(os.environ)
    e.update(env or {})
    t0 = time.time()
    try:
        p = subprocess.run(cmd, cwd=SPEC, env=e, stdout=subprocess.PIPE, stderr=subprocess.STDOUT,
                           timeout=timeout, text=True)
        out, rc = p.stdout, p.returncode
    except subprocess.TimeoutExpired as ex:
        out = (ex.stdout or b"").decode() if isinstance(ex.stdout, bytes) else (ex.stdout or "")
        rc = -9
    shutil.rmtree(meta, ignore_errors=True)
    with open(os.path.join(workdir, spec + ".out"), "w") as f:
        f.write(out)
    res = {"rc": rc, "out": out, "wall": time.time() - t0, "generated": 0, "distinct": 0}
    m = re.search(r"(\d+) states generated, (\d+) distinct states found", out)
    if m:
        res["generated"], res["distinct"] = int(m.group(1)), int(m.group(2))
    res["violated"] = sorted(set(re.findall(r"Invariant (\w+) is violated", out)))
    res["init_rejects"] = [int(x) for x in re.findall(r"violated by the initial state:\s*\n\s*idx = (\d+)", out)]
    res["completed"] = "Model checking completed" in out
    res["errors"] = [l for l in out.splitlines() if l.startswith("Error:")]
    return res


# --------------------------------------------------------------------------- Gen
def spec_hash():
    return tree_hash([SPEC], exts={".tla", ".cfg"})


def gen(family_mc, base_cfg, consts, tag, env=None, timeout=2400, must_hold=True):
    """Runs the model-checking/generation configuration of a family.  TLC
    checks the family's invariants (Level I => Level A, algebraic laws) and the
    action constraint emits the cases.  Cached by the hash of the whole spec
    directory + constants.  Returns (cases_path, stats)."""
    key = sha(spec_hash(), family_mc, json.dumps(consts, sort_keys=True), json.dumps(env or {}, sort_keys=True))
    d = ensure(os.path.join(CACHE, "gen", "%s-%s-%s" % (family_mc, tag, key)))
    cases = os.path.join(d, "cases.ndjson")
    statp = os.path.join(d, "stats.json")
    if os.path.exists(statp) and os.path.exists(cases):
        return cases, json.load(open(statp))
    # two checks started at the same time must not fill the same cache entry at once
    import fcntl
    lockf = open(os.path.join(d, "lock"), "w")
    fcntl.flock(lockf, fcntl.LOCK_EX)
    if os.path.exists(statp) and os.path.exists(cases):
        return cases, json.load(open(statp))
    raw = os.path.join(d, "raw.csv")
    for f in (raw, cases):
        if os.path.exists(f):
            os.remove(f)
    e = {"GEN_OUT": raw}
    e.update(env or {})

    def run(workers):
        for f in [raw, cases] + glob.glob(raw + ".*"):
            if os.path.exists(f):
                os.remove(f)
        r = run_tlc(family_mc, cfg_text(base_cfg, consts), os.path.join(d, "tlc"), env=e, timeout=timeout, **({"workers": workers} if workers else {}))
        if r["violated"] and must_hold:
            # the specification itself is inconsistent: Level I does not refine Level A
            raise MachineryFailure("TLC: invariant(s) %s violated in %s (see %s)" % (r["violated"], family_mc, d))
        if not r["completed"]:
            raise MachineryFailure("TLC did not complete %s (rc=%s); see %s" % (family_mc, r["rc"], d))
        seen = set()
        n = 0
        import itertools
        # raw.csv plus one raw.csv.<k> per state whose (long) records go to a file of their own
        parts = ([raw] if os.path.exists(raw) else []) + sorted(glob.glob(raw + ".*"))
        with open(cases, "w") as out:
            if parts:
                for line in itertools.chain.from_iterable(open(pp) for pp in parts):
                    line = line.strip()
                    if not line:
                        continue
                    try:
                        s = json.loads(line)
                        json.loads(s)
                    except Exception:
                        return r, None, None
                    n += 1
                    if s in seen:
                        continue
                    seen.add(s)
                    out.write(s + "\n")
                for pp in parts:
                    os.remove(pp)
        return r, n, seen

    r, n, seen = run(None)
    if n is None:
        # long lines written by several TLC workers at once can interleave: emit again from a single worker
        log("[gen] %s: a generated line was torn by concurrent writers; regenerating with one worker" % family_mc)
        r, n, seen = run(1)
        if n is None:
            raise MachineryFailure("corrupt line in generated cases of %s" % family_mc)
    stats = {"states": r["distinct"], "transitions": r["generated"], "emitted": n, "distinct_cases": len(seen),
             "tlc_wall_s": round(r["wall"], 1), "spec": family_mc, "consts": consts}
    with open(statp + ".tmp", "w") as fh:
        json.dump(stats, fh)
    os.replace(statp + ".tmp", statp)
    return cases, stats


# --------------------------------------------------------------------------- build
VARIANTS = {
    # name: (compiler, flags)
    "exact": ("g++", ["-std=c++17", "-O1", "-w"]),
    "exact_checks": ("g++", ["-std=c++17", "-O1", "-w", "-DBSPLINE_ADD_TEST_CHECKS"]),
    # the second archetype: not trivially copyable, detects bitwise relocation / creation of scalars (C19)
    "exact_self": ("g++", ["-std=c++17", "-O1", "-w", "-DVERIF_RAT_SELFCHECK"]),
    "fp": ("g++", ["-std=c++17", "-O2", "-w", "-DVH_FP", "-DBSPLINE_INTERPOLATION_USE_EIGEN"]),
    # fall-back when the exact archetype no longer compiles (C19 reports that): the floating half without its exact twin pass
    "fp_notwin": ("g++", ["-std=c++17", "-O2", "-w", "-DVH_FP", "-DBSPLINE_INTERPOLATION_USE_EIGEN", "-DVH_NO_EXACT_TWIN"]),
    "fp_checks": ("g++", ["-std=c++17", "-O2", "-w", "-DVH_FP", "-DBSPLINE_INTERPOLATION_USE_EIGEN", "-DBSPLINE_ADD_TEST_CHECKS"]),
    "fp_O0": ("g++", ["-std=c++17", "-O0", "-w", "-DVH_FP", "-DBSPLINE_INTERPOLATION_USE_EIGEN"]),
    "fp_O3": ("g++", ["-std=c++17", "-O3", "-w", "-DVH_FP", "-DBSPLINE_INTERPOLATION_USE_EIGEN"]),
    "fp_clang": ("clang++-14", ["-std=c++17", "-O2", "-w", "-DVH_FP", "-DBSPLINE_INTERPOLATION_USE_EIGEN"]),
    "exactd": ("g++", ["-std=c++17", "-O2", "-w", "-DVH_SCALAR=double", "-pthread", "-DVH_CONST_OPERANDS"]),
    "exact_thr": ("g++", ["-std=c++17", "-O1", "-w", "-pthread", "-DVH_CONST_OPERANDS"]),
    "tsan": ("clang++-14", ["-std=c++17", "-O1", "-g", "-w", "-fsanitize=thread", "-pthread", "-DVH_CONST_OPERANDS"]),
    "tsand": ("clang++-14", ["-std=c++17", "-O1", "-g", "-w", "-fsanitize=thread", "-pthread", "-DVH_SCALAR=double", "-DVH_CONST_OPERANDS"]),
    "ex": ("g++", ["-std=c++17", "-O2", "-w", "-DBSPLINE_INTERPOLATION_USE_EIGEN", "-DBSPLINE_ADD_TEST_CHECKS"]),
    "ex_san": ("clang++-14", ["-std=c++17", "-O1", "-g", "-w", "-DBSPLINE_INTERPOLATION_USE_EIGEN", "-DBSPLINE_ADD_TEST_CHECKS", "-fsanitize=address,undefined",
                              "-fno-sanitize-recover=undefined", "-fno-omit-frame-pointer", "-D_GLIBCXX_DEBUG"]),
    "san": ("clang++-14", ["-std=c++17", "-O1", "-g", "-w", "-fsanitize=address,undefined",
                           "-fno-sanitize-recover=undefined", "-fno-omit-frame-pointer", "-D_GLIBCXX_ASSERTIONS"]),
}


def build(variant, sources, name="vh", extra_flags=(), gen_sources=(), libs=()):
    """Builds a harness binary from /repo's current headers.  Cached by content
    hash of /repo/include, /repo/examples, the harness sources and flags."""
    comp, flags = VARIANTS[variant]
    flags = list(flags) + list(extra_flags)
    if os.environ.get("VERIF_COV") and comp == "g++":
        # coverage audit (tools/cov_audit.py): which lines of the library do the replayed cases reach
        flags = [f for f in flags if not f.startswith("-O")] + ["-O0", "--coverage"]
    srcs = [os.path.join(HARNESS, s) for s in sources] + list(gen_sources)
    key = sha(tree_hash([os.path.join(REPO, "include"), os.path.join(REPO, "examples")]),
              tree_hash(sorted(glob.glob(os.path.join(HARNESS, "*.h")))), tree_hash(srcs), comp, " ".join(flags), " ".join(libs))
    d = ensure(os.path.join(CACHE, "build", "%s-%s-%s" % (name, variant, key)))
    binp = os.path.join(d, name)
    if os.path.exists(binp):
        return binp
    log("[build] %s (%s): %d translation units" % (name, variant, len(srcs)))
    t0 = time.time()

    def cc(src):
        obj = os.path.join(d, sha(src) + ".o")
        cmd = [comp] + flags + ["-I", os.path.join(REPO, "include"), "-I", HARNESS, "-I", os.path.join(REPO, "examples"),
                                "-c", src, "-o", obj]
        p = subprocess.run(cmd, stdout=subprocess.PIPE, stderr=subprocess.STDOUT, text=True, timeout=1800)
        return obj, p.returncode, p.stdout

    with cf.ThreadPoolExecutor(NCPU) as ex:
        results = list(ex.map(cc, srcs))
    bad = [(o, out) for o, rc, out in results if rc != 0]
    if bad:
        errp = os.path.join(d, "compile_errors.txt")
        with open(errp, "w") as f:
            for _, out in bad:
                f.write(out + "\n")
        raise BuildError(errp, bad[0][1][-3000:])
    cmd = [comp] + [f for f in flags if f.startswith("-fsanitize") or f in ("-g", "-pthread", "--coverage")] + [o for o, _, _ in results] + ["-o", binp + ".tmp"] + list(libs)
    p = subprocess.run(cmd, stdout=subprocess.PIPE, stderr=subprocess.STDOUT, text=True)
    if p.returncode != 0:
        raise MachineryFailure("link failed: " + p.stdout[-2000:])
    os.rename(binp + ".tmp", binp)
    for o, _, _ in results:
        os.remove(o)
    log("[build] done in %.0f s" % (time.time() - t0))
    return binp


class BuildError(Exception):
    def __init__(self, path, tail):
        super().__init__("harness build failed; diagnostics in " + path)
        self.path = path
        self.tail = tail


# --------------------------------------------------------------------------- Exec
def shard_count(n, nshards=NCPU):
    """Number of harness processes exec_cases uses for n cases (case i runs in process i % count, in index order)."""
    return max(1, min(nshards, (n + 199) // 200))


def exec_cases(binp, case_lines, workdir, nshards=NCPU, timeout=900, env=None):
    """Runs the cases through the real library.  Returns the list of event
    lines, index-aligned with case_lines.  A crash / sanitizer report / hang
    becomes a CRASH event for the case that was running; the shard is then
    resumed behind it."""
    ensure(workdir)
    n = len(case_lines)
    nshards = shard_count(n, nshards)
    shards = [list(range(i, n, nshards)) for i in range(nshards)]

    def run(si):
        idxs = shards[si]
        inp = os.path.join(workdir, "cases.%d.ndjson" % si)
        outp = os.path.join(workdir, "trace.%d.ndjson" % si)
        with open(inp, "w") as f:
            for i in idxs:
                f.write(case_lines[i] + "\n")
        if os.path.exists(outp):
            os.remove(outp)
        events = []
        skip = 0
        e = dict(os.environ)
        e.update(env or {})
        e.setdefault("ASAN_OPTIONS", "detect_leaks=1:abort_on_error=0:exitcode=86")
        e.setdefault("UBSAN_OPTIONS", "print_stacktrace=1:halt_on_error=1:exitcode=87")
        while skip < len(idxs):
            if os.path.exists(outp):
                os.remove(outp)
            try:
                p = subprocess.run([binp, inp, outp, str(skip)], stdout=subprocess.PIPE, stderr=subprocess.PIPE,
                                   timeout=timeout, env=e)
                rc, err = p.returncode, p.stderr.decode(errors="replace")
            except subprocess.TimeoutExpired as ex:
                rc, err = -9, "timeout after %ds" % timeout
            got = open(outp).read().splitlines() if os.path.exists(outp) else []
            events.extend(got)
            skip += len(got)
            if skip < len(idxs):
                if rc == 0:
                    raise MachineryFailure("harness produced too few events without failing")
                kind = "UB" if rc in (86, 87) or "Sanitizer" in err else ("TIMEOUT" if rc == -9 else "CRASH")
                c = json.loads(case_lines[idxs[skip]])
                events.append(json.dumps({"op": kind, "case_op": c.get("op"), "rc": rc, "big": 0,
                                          "report": err[-1500:], "case": c}))
                skip += 1
            elif rc != 0:
                # died after the last case (e.g. leak report at exit)
                kind = "UB" if rc in (86, 87) or "Sanitizer" in err else "CRASH"
                # not attached to a case: returned separately
                extra.append(json.dumps({"op": kind, "case_op": "exit", "rc": rc, "big": 0, "report": err[-1500:]}))
        os.remove(inp)
        if os.path.exists(outp):
            os.remove(outp)
        return idxs, events

    extra = []
    out = [None] * n
    with cf.ThreadPoolExecutor(nshards) as ex:
        for idxs, events in ex.map(run, range(nshards)):
            for i, ev in zip(idxs, events):
                out[i] = ev
    return out, extra


# --------------------------------------------------------------------------- Validate
def validate(trace_spec, base_cfg, consts, event_lines, workdir, nshards=NCPU, timeout=1800):
    """Stateless validation: TLC accepts an event iff its Level-A contract
    holds.  Returns the set of rejected indices into event_lines."""
    ensure(workdir)
    n = len(event_lines)
    if n == 0:
        return set(), 0
    nshards = max(1, min(nshards, (n + 99) // 100))
    shards = [list(range(i, n, nshards)) for i in range(nshards)]
    cfg = cfg_text(base_cfg, consts)

    unvalidated = set()
    budget = {"runs": 0}

    def tlc_once(si, idxs, tag):
        """One TLC run over the events idxs.  Returns (rejected idxs, aborted_by_overflow)."""
        tp = os.path.join(workdir, "vtrace.%d.%s.ndjson" % (si, tag))
        with open(tp, "w") as f:
            for i in idxs:
                f.write(event_lines[i] + "\n")
        r = run_tlc(trace_spec, cfg, os.path.join(workdir, "v%d" % si), env={"TRACE": tp}, workers=2, xmx="3g",
                    timeout=timeout, extra=["-continue"])
        os.remove(tp)
        rej = {idxs[k - 1] for k in r["init_rejects"] if 1 <= k <= len(idxs)}
        if r["completed"] and r["generated"] == len(idxs):
            other = [e for e in r["errors"] if "Invariant Explained is violated" not in e]
            if other:
                raise MachineryFailure("TLC error during validation: %s" % other[:3])
            return rej, False
        if "Overflow when computing" in r["out"]:
            # TLC's 32-bit integers overflowed while a contract was being evaluated on some event of
            # this run: TLC aborts without saying on which one.  The rejections printed so far stand.
            return rej, True
        raise MachineryFailure("trace validation did not complete (shard %d, rc=%s): %s" %
                               (si, r["rc"], "\n".join(r["out"].splitlines()[-15:])))

    def solve(si, idxs, tag):
        """Validates idxs; isolates events on which TLC overflows by bisection (they are reported as
        unvalidated, neither accepted nor rejected)."""
        rej, aborted = tlc_once(si, idxs, tag)
        if not aborted:
            return rej
        rest = [i for i in idxs if i not in rej]
        budget["runs"] += 1
        if len(rest) == 1 or budget["runs"] > 60:
            unvalidated.update(rest)
            return rej
        h = len(rest) // 2
        return rej | solve(si, rest[:h], tag + "a") | solve(si, rest[h:], tag + "b")

    def run(si):
        return solve(si, shards[si], "r")

    rejected = set()
    with cf.ThreadPoolExecutor(min(nshards, NCPU)) as ex:
        for s in ex.map(run, range(nshards)):
            rejected |= s
    validate.last_unvalidated = sorted(unvalidated)
    if len(unvalidated) > max(20, n // 10):
        raise MachineryFailure("TLC integer overflow on %d of %d events: the contracts could not be evaluated" % (len(unvalidated), n))
    return rejected, n - len(unvalidated)


# --------------------------------------------------------------------------- known findings
def load_known():
    p = os.path.join(VERIF, "known_findings.json")
    if not os.path.exists(p):
        return []
    return json.load(open(p)).get("findings", [])


def dig(obj, path):
    for k in path.split("."):
        if isinstance(obj, dict) and k in obj:
            obj = obj[k]
        else:
            return None
    return obj


def known_match(prop, case):
    for f in load_known():
        if f.get("status") != "known" or f.get("property") != prop:
            continue
        if all(dig(case, k) == v for k, v in f.get("match", {}).items()):
            return f
    return None


# --------------------------------------------------------------------------- evidence
def write_evidence(prop, tier, seed, level, coverage, assumptions, wall, violations):
    ensure(EVIDENCE)
    ev = {"property_id": prop, "tier": tier, "seed": seed, "level": level, "coverage": coverage,
          "assumptions": assumptions, "wall_s": round(wall, 1), "violations": violations}
    tmp = os.path.join(EVIDENCE, prop + ".json.tmp")
    json.dump(ev, open(tmp, "w"), indent=1)
    os.rename(tmp, os.path.join(EVIDENCE, prop + ".json"))


def write_replay(prop, payload):
    d = ensure(os.path.join(REPLAYS, prop))
    p = os.path.join(d, sha(json.dumps(payload, sort_keys=True)) + ".json")
    json.dump(payload, open(p, "w"), indent=1)
    return p


# --------------------------------------------------------------------------- threaded Exec (C18)
def exec_threaded(binp, case_lines, workdir, nthreads, timeout=900, env=None, lockstep=False, schedule=None):
    """vh --threads N: returns (seq_events, [per-thread events], quiescent, rc, stderr).
    schedule: "free" | "lockstep" | "fresh" (see harness/vh_main.cpp)."""
    schedule = schedule or ("lockstep" if lockstep else "free")
    ensure(workdir)
    inp = os.path.join(workdir, "cases.ndjson")
    pre = os.path.join(workdir, "out")
    with open(inp, "w") as f:
        f.write("\n".join(case_lines) + "\n")
    for p in glob.glob(pre + ".*"):
        os.remove(p)
    e = dict(os.environ)
    e.update(env or {})
    e.setdefault("TSAN_OPTIONS", "exitcode=66:halt_on_error=0:second_deadlock_stack=1:history_size=7")
    try:
        p = subprocess.run([binp, "--threads", str(nthreads), inp, pre] + ([schedule] if schedule != "free" else []), stdout=subprocess.PIPE, stderr=subprocess.PIPE, timeout=timeout, env=e)
        rc, err = p.returncode, p.stderr.decode(errors="replace")
    except subprocess.TimeoutExpired:
        rc, err = -9, "timeout"
    rd = lambda path: open(path).read().splitlines() if os.path.exists(path) else []
    seq = rd(pre + ".seq")
    ths = [rd(pre + ".t%d" % t) for t in range(nthreads)]
    q = rd(pre + ".quiescent")
    for p in glob.glob(pre + ".*") + [inp]:
        os.remove(p)
    return seq, ths, (json.loads(q[0]) if q else None), rc, err
