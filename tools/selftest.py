#!/usr/bin/env python3
"""./tools/selftest.py [--pinned]  — demonstrates that the specification is
bound to the code and that its checks are not vacuous (DESIGN.md section 8).

 (1) corrupts one coefficient, one window index and one outcome in a trace
     recorded from the real library: TLC must reject exactly those lines;
     removes one line of a sequential history: Trace_Life must reject it;
 (2) every Bug_* regression configuration (the pinned tree's defects modelled
     as written) must be REJECTED by TLC on the specification;
 (3) with --pinned: the checks are run against a scratch worktree of the pinned
     commit (before the "fix:" commits) and must report the defects.
Exit 0 iff everything behaved as expected."""
import json
import os
import subprocess
import sys

sys.path.insert(0, os.path.dirname(os.path.abspath(__file__)))
import vlib
import check

ok = True


def expect(cond, msg):
    global ok
    print(("ok   " if cond else "FAIL ") + msg, flush=True)
    ok = ok and cond


def corrupt_stateless():
    ctx = check.Ctx("SELFTEST", "quick", 1)
    cases_path, _ = vlib.gen("MC_Spl", "MC_Spl.cfg", ctx.consts(), "quick")
    lines = [l for l in open(cases_path).read().splitlines() if '"op":"SplBin"' in l and '"share":1' in l][:300]
    lines = [l for l in lines if (lambda c: c["a"]["e"] - c["a"]["s"] >= 2 and c["b"]["e"] - c["b"]["s"] >= 2 and c["a"]["g"] == c["b"]["g"])(json.loads(l))][:60]
    binp = vlib.build("exact", check.EXACT_SOURCES)
    events, _ = vlib.exec_cases(binp, lines, os.path.join(ctx.work, "x"), nshards=1)
    rej, n = vlib.validate("Trace_Stateless", "Trace_Stateless.cfg", {"PROP": "ALL"}, events, os.path.join(ctx.work, "v"), nshards=1)
    expect(not rej and n == len(lines), "recorded SplBin trace accepted as is (%d events)" % n)
    evs = [json.loads(e) for e in events]
    # one coefficient
    evs[3]["add_v"]["c"][0][0] = [evs[3]["add_v"]["c"][0][0][0] + 1, evs[3]["add_v"]["c"][0][0][1]]
    # one window index
    evs[10]["mul_v"]["e"] = evs[10]["mul_v"]["e"] + 1
    # one outcome
    evs[20]["sub"] = "throw"
    evs[20]["sub_code"] = "DIFFERING_GRIDS"
    # one operand silently changed by the call
    evs[30]["a_after"]["s"] = evs[30]["a_after"]["s"] + 1 if evs[30]["a_after"]["s"] + 1 < evs[30]["a_after"]["e"] else 0
    rej, _ = vlib.validate("Trace_Stateless", "Trace_Stateless.cfg", {"PROP": "ALL"}, [json.dumps(e) for e in evs], os.path.join(ctx.work, "v2"), nshards=1)
    expect(rej == {3, 10, 20, 30}, "corrupted coefficient / window / outcome / operand rejected, nothing else (rejected lines: %s)" % sorted(rej))
    import shutil
    shutil.rmtree(ctx.work, ignore_errors=True)


def corrupt_history():
    ctx = check.Ctx("SELFTEST", "quick", 1)
    p, _ = check.gen_histories(ctx, "sim", 320, 12)
    hist = json.loads(open(p).readline())
    binp = vlib.build("exact", ["vh_life.cpp"], name="vh_life")
    wd = vlib.ensure(os.path.join(ctx.work, "h"))
    sp, tp = os.path.join(wd, "s.ndjson"), os.path.join(wd, "t.ndjson")
    with open(sp, "w") as f:
        f.write('{"op":"Reset"}\n' + "\n".join(json.dumps(c) for c in hist) + "\n")
    subprocess.run([binp, sp, tp], check=True)
    import re

    def depth(trace_lines):
        q = os.path.join(wd, "q.ndjson")
        open(q, "w").write("\n".join(trace_lines) + "\n")
        r = vlib.run_tlc("Trace_Life", vlib.cfg_text("Trace_Life.cfg", {"PROP": "ALL"}), os.path.join(wd, "v"), env={"TRACE": q}, workers=1)
        return int(re.search(r"depth of the complete state graph search is (\d+)", r["out"]).group(1))

    tl = open(tp).read().splitlines()
    expect(depth(tl) == len(tl) + 1, "recorded history accepted as is (%d steps)" % len(tl))
    # drop the logged delta of one step (a missing hook / unlogged change)
    k = next(i for i, l in enumerate(tl) if i > 6 and json.loads(l)["delta"])
    ev = json.loads(tl[k])
    ev["delta"] = []
    t2 = tl[:k] + [json.dumps(ev)] + tl[k + 1:]
    expect(depth(t2) == k + 1, "history with one unlogged state change rejected at that step (line %d)" % (k + 1))
    import shutil
    shutil.rmtree(ctx.work, ignore_errors=True)


def regressions():
    wd = vlib.ensure(os.path.join(vlib.WORK, "selftest-reg"))
    for spec, cfg, flag, inv in (("MC_Sup", "MC_Sup.cfg", "Bug_AtWraps", "WordOK"), ("MC_Sup", "MC_Sup.cfg", "Bug_IntervalWraps", "WordOK"),
                                 ("MC_Ops", "MC_Ops.cfg", "Bug_SplineOpLookupByPoint", None), ("MC_Ops", "MC_Ops.cfg", "Bug_IntReciprocal", "ApplyOK"),
                                 ("MC_Fp", "MC_Fp.cfg", "Bug_GridScanGE", "MagnitudeOK"), ("Examples", "Examples.cfg", "Bug_EraseEnd", "NoUB")):
        c = {flag: "TRUE"}
        if spec.startswith("MC_") and spec != "MC_Sharing":
            c["TIER"] = "quick"
        r = vlib.run_tlc(spec, vlib.cfg_text(cfg, c), os.path.join(wd, flag), env={"GEN_OUT": "/dev/null"}, timeout=1800)
        rejected = bool(r["violated"]) or any("Error" in e for e in r["errors"])
        expect(rejected and (inv is None or inv in r["violated"]), "%s with %s=TRUE rejected by TLC (%s)" % (spec, flag, r["violated"] or r["errors"][:1]))
    import shutil
    shutil.rmtree(wd, ignore_errors=True)


def pinned():
    wt = "/tmp/selftest_pinned"
    subprocess.run(["git", "-C", vlib.REPO, "worktree", "remove", "--force", wt], stdout=subprocess.DEVNULL, stderr=subprocess.DEVNULL)
    subprocess.run(["git", "-C", vlib.REPO, "worktree", "add", "-q", "--detach", wt, "24b7461"], check=True)
    try:
        for prop in ("C13", "C11", "C05", "C09", "C20"):
            e = dict(os.environ, VERIF_REPO=wt, VERIF_OUT="/tmp/selftest_out")
            p = subprocess.run([os.path.join(vlib.VERIF, "check"), prop, "--tier", "quick"], env=e, stdout=subprocess.PIPE, stderr=subprocess.STDOUT, text=True)
            nv = p.stdout.count("\nVIOLATION") + (1 if p.stdout.startswith("VIOLATION") else 0)
            expect(p.returncode == 1 and nv > 0, "%s reports the pinned tree's defect (rc=%d, %d VIOLATION lines)" % (prop, p.returncode, nv))
    finally:
        subprocess.run(["git", "-C", vlib.REPO, "worktree", "remove", "--force", wt])
        subprocess.run(["rm", "-rf", "/tmp/selftest_out"])


if __name__ == "__main__":
    corrupt_stateless()
    corrupt_history()
    regressions()
    if "--pinned" in sys.argv:
        pinned()
    print("SELFTEST " + ("PASSED" if ok else "FAILED"))
    sys.exit(0 if ok else 1)
