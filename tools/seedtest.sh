#!/bin/bash
# tools/seedtest.sh <seed-dir> [props...]   (seed-dir contains patch.diff, demo.cpp, meta.json)
# Confirms a seeded change (applies, demo PASS on HEAD / FAIL with change, existing suite passes) in a scratch
# worktree and runs the named checks (default: the seed's property) against it.  Prints one summary line.
set -u
D=$(realpath "$1"); shift
ID=$(basename "$D")
PROP=$(python3 -c "import json;print(json.load(open('$D/meta.json'))['property'])")
PROPS=${*:-$PROP}
WT=/tmp/seedwt_$ID
git -C /repo worktree remove --force "$WT" >/dev/null 2>&1
git -C /repo worktree add -q --detach "$WT" HEAD || exit 2
trap 'git -C /repo worktree remove --force "$WT" >/dev/null 2>&1; rm -rf /tmp/demo_$ID.* /tmp/seedout_$ID' EXIT
git -C "$WT" apply "$D/patch.diff" || { echo "SEED $ID: patch does not apply"; exit 2; }
EIG="-I/usr/include/eigen3 -DBSPLINE_INTERPOLATION_USE_EIGEN"
X=""; grep -q "pthread\|<thread>" "$D/demo.cpp" && X="-pthread"
EXO=""; EXM=""
if grep -q '"diffusion.h"\|"spline-potential.h"\|<diffusion.h>\|<spline-potential.h>' "$D/demo.cpp"; then
  EXO="/repo/examples/diffusion.cpp /repo/examples/spline-potential.cpp"; EXM="$WT/examples/diffusion.cpp $WT/examples/spline-potential.cpp"
fi
g++ -std=c++17 -O1 -w $EIG $X -I/repo/include -I/repo/examples "$D/demo.cpp" $EXO -o /tmp/demo_$ID.orig 2>/tmp/demo_$ID.err || { echo "SEED $ID: demo does not compile on HEAD"; head -5 /tmp/demo_$ID.err; exit 2; }
MUTCOMPILE=0
g++ -std=c++17 -O1 -w $EIG $X -I"$WT/include" -I"$WT/examples" "$D/demo.cpp" $EXM -o /tmp/demo_$ID.mut 2>/tmp/demo_$ID.err || MUTCOMPILE=1
if [ $MUTCOMPILE = 1 ] && [ "$PROP" != "C19" ]; then echo "SEED $ID: demo does not compile with change"; head -5 /tmp/demo_$ID.err; exit 2; fi
timeout 300 /tmp/demo_$ID.orig >/dev/null 2>&1; o=$?
if [ $MUTCOMPILE = 1 ]; then m="compile-error"; else timeout 300 /tmp/demo_$ID.mut >/dev/null 2>&1; m=$?; fi
T="skipped"
if [ "${SEED_SKIP_TESTS:-0}" != 1 ]; then VERIF_REPO=$WT /verif/tools/baseline.sh >/tmp/demo_$ID.tests 2>&1; T=$?; fi
RES=""
for p in $PROPS; do
  VERIF_OUT=/tmp/seedout_$ID VERIF_REPO=$WT ${VERIF_CHECK:-/verif/check} $p --tier ${SEED_TIER:-quick} >/tmp/demo_$ID.check 2>&1; rc=$?
  nv=$(grep -c '^VIOLATION' /tmp/demo_$ID.check)
  RES="$RES $p:rc=$rc,viol=$nv"
done
echo "SEED $ID: demo_orig=$o demo_mut=$m tests_rc=$T checks:$RES"
