------------------------------ MODULE Trace_Life ------------------------------
(***************************************************************************)
(* Sequential trace validation of histories executed by the real library  *)
(* (harness/vh_life.cpp).  One line of the trace = one public call,        *)
(* logged at its return with its outcome and the projection of every slot  *)
(* whose projection changed.  The trace spec rebuilds the abstract pool    *)
(* from the logged deltas and accepts a step only if the Level-A contract  *)
(* of the command holds between the pool before and after:                 *)
(*   C10  every live object valid after every step (also after a throw),   *)
(*        moved-from objects valid, interval-free, on the same grid        *)
(*   C14  only the declared targets change; a throwing step changes        *)
(*        nothing; no aliased coefficient storage; grid blocks never       *)
(*        written; no block freed while referenced                         *)
(*   C08  cross-grid calls throw DIFFERING_GRIDS; equal grids in distinct  *)
(*        objects behave as one                                            *)
(*   C03  arithmetic results (incl. in-place sequences on one object)      *)
(*   C11  constructions accept exactly the valid arguments                 *)
(*   C02  evaluations inside histories                                     *)
(* {"op":"Reset"} starts a new history.  Acceptance: the behaviour         *)
(* consumes every line (depth of the state graph = Len(Trace) + 1).        *)
(***************************************************************************)
EXTENDS Lifecycle, Json, IOUtils, TLC

CONSTANT PROP
For(p) == PROP = "ALL" \/ PROP = p

TraceLog == ndJsonDeserialize(IOEnv.TRACE)

VARIABLES pool, l
vars == <<pool, l>>

NSLOT == 8
Empty == [i \in 1..NSLOT |-> Null]

ApplyDelta(p, delta) ==
  [i \in DOMAIN p |->
     IF \E k \in DOMAIN delta : delta[k][1] = i
     THEN AbsObj(delta[CHOOSE k \in DOMAIN delta : delta[k][1] = i][2])
     ELSE p[i]]

Has(ev, k) == k \in DOMAIN ev
Arith == {"AssignLower", "AddAssign", "SubAssign", "ScaleAssign", "DivAssign", "Add", "Sub", "Mul", "Scale", "Neg", "Apply", "LinComb"}
Ctors == {"GridNew", "SupNew", "SplNew"}

StepOK(pre, ev, post) ==
  IF ev.op = "Reset" THEN post = Empty
  ELSE
  LET c == ev
      ok == ev.out = "ok"
      threw == ev.out = "throw"
      refuse == MustRefuse(pre, c)
  IN /\ ~Has(ev, "harness_error") /\ ev.big = 0
     /\ ok \/ threw                                         \* never a foreign exception
     /\ For("C10") => /\ PoolValid(post)
                      /\ (ok /\ c.op \in {"Move", "MoveAssign"} => TargetOK(pre, c, post))
                      /\ (ok => RvOK(pre, c, post))                    \* an operand given as an rvalue: untouched or moved-from
     /\ For("C14") => /\ IF ok THEN Unchanged(pre, post, Others(pre, Targets(c))) /\ RvOK(pre, c, post) ELSE post = pre
                      /\ ev.alias = 0 /\ ev.heap_changed = 0
                      /\ \A k \in DOMAIN ev.rc : ev.rc[k][2] >= ev.rc[k][3]
                      /\ (ok /\ c.op \in {"Copy", "CopyAssign", "Move", "MoveAssign", "GetSupport", "GetGrid", "Destroy"} => TargetOK(pre, c, post))
                      /\ (c.op = "Eval" => ok /\ EvalPost(AsSpl(pre[c.src]), c.x, ev.val))
                      /\ (c.op = "BF" /\ ~refuse => ok /\ ev.val = BilinearVal(FormOps(c.which)[1], FormOps(c.which)[2], AsSpl(pre[c.a]), AsSpl(pre[c.b]), <<>>))
     \* evaluation inside histories (after moves, assignments, in-place updates): the object evaluated is a
     \* valid spline and the value is that of its stored polynomial
     /\ For("C02") => (c.op = "Eval" => ok /\ SplValid(AsSpl(pre[c.src])) /\ EvalPost(AsSpl(pre[c.src]), c.x, ev.val))
     /\ For("C08") => (CrossGrid(c) => IF refuse THEN threw /\ ev.out_code = "DIFFERING_GRIDS" /\ post = pre
                                       ELSE ok /\ TargetOK(pre, c, post))
     /\ For("C03") => (c.op \in Arith /\ ~refuse => ok /\ TargetOK(pre, c, post))
     /\ For("C11") => (c.op \in Ctors => IF refuse THEN threw ELSE ok /\ TargetOK(pre, c, post))

Init == pool = Empty /\ l = 1
Next == /\ l <= Len(TraceLog)
        /\ LET ev == TraceLog[l]
               post == IF ev.op = "Reset" THEN Empty ELSE ApplyDelta(pool, ev.delta)
           IN /\ StepOK(pool, ev, post)
              /\ pool' = post
        /\ l' = l + 1
Spec == Init /\ [][Next]_vars
=============================================================================
