SPECIFICATION Spec
CONSTANTS
  Bug_EraseEnd = FALSE
  MaxBasis = 12
INVARIANTS NoUB AssemblyOK BoundaryOK
PROPERTY Terminates
CHECK_DEADLOCK FALSE
