----------------------------- MODULE MC_Sharing -----------------------------
(* Model-checking configuration of Sharing: worker scripts of up to five    *)
(* calls mixing copies, reads, releases, the guarded static and evaluation. *)
EXTENDS Sharing
ScriptsDef == {<<"copy", "read", "drop">>, <<"copy", "copy", "drop", "read", "drop">>, <<"zero", "eval">>,
               <<"read", "eval", "zero">>, <<"copy", "eval", "drop", "eval">>, <<>>}
ScriptsBig == ScriptsDef \cup {<<"copy", "drop", "copy", "read", "drop">>, <<"zero", "zero">>, <<"eval", "eval", "read">>}
=============================================================================
