-------------------------------- MODULE MC_Ops --------------------------------
(***************************************************************************)
(* Model checking + case generation for operator expressions and forms     *)
(* (C04, C05, C06, C07, C08 for spline factors, C09 factor lookup).        *)
(*   st = [ph |-> 0, e |-> AST]  -->  [ph |-> 1, c |-> case]               *)
(* Cases:  OpApply  (expr * a  and  LinearForm{expr}(a))                   *)
(*         OpBF     (BilinearForm{e1, e2}(a, b), swapped, LF of product)   *)
(* EXTRA (environment EXTRA_ASTS): deeper ASTs sampled by MC_Ast.          *)
(***************************************************************************)
EXTENDS Forms, Domains, Json, CSV, IOUtils, SequencesExt

VARIABLE st
OutFile == IF "GEN_OUT" \in DOMAIN IOEnv THEN IOEnv.GEN_OUT ELSE "/dev/null"
Extra == IF "EXTRA_ASTS" \in DOMAIN IOEnv THEN ndJsonDeserialize(IOEnv.EXTRA_ASTS) ELSE <<>>

Id == [k |-> "Id"]
Xn(n) == [k |-> "X", n |-> n]
Dn(n) == [k |-> "Dx", n |-> n]
SplLeaf == [k |-> "Spl", vo |-> 1, slot |-> 1]
SplO(vo) == [k |-> "Spl", vo |-> vo, slot |-> 1]          \* a spline factor of another order
S1(kind, t, v, o) == [k |-> kind, t |-> t, v |-> v, o |-> o]
Neg(o) == [k |-> "Neg", o |-> o]
B2(kind, l, r) == [k |-> kind, l |-> l, r |-> r]

PrimMax == IF Thorough THEN 6 ELSE 4
Prims == {Id} \cup {Xn(n) : n \in 0..PrimMax} \cup {Dn(n) : n \in 0..PrimMax}

Leaves == {Id, Xn(1), Xn(2), Dn(1), Dn(2), SplLeaf}
ScalLeaves == {Id, Xn(1), Dn(1), SplLeaf}
ScalKinds == {"ScalL", "ScalR", "Div", "AddSR", "AddSL", "SubSR", "SubSL"}
TScal == {RTwo, FromInt(-1), R(1, 2)}
IScal == {RTwo, FromInt(3), FromInt(-1)}
Depth1 ==
  {S1(kd, "T", v, o) : kd \in ScalKinds, v \in TScal, o \in ScalLeaves}
  \cup {S1(kd, "int", v, o) : kd \in ScalKinds, v \in IScal, o \in ScalLeaves}
  \cup {S1(kd, t, v, o) : kd \in ScalKinds, t \in {"uint", "ulong"}, v \in {RTwo, FromInt(3)}, o \in {Xn(1), Dn(1)}}
  \* the scalars where shortcuts lurk: 0 and 1 (no division by 0)
  \cup {S1(kd, t, v, o) : kd \in ScalKinds \ {"Div"}, t \in {"T", "int"}, v \in {RZero}, o \in ScalLeaves}
  \cup {S1(kd, "T", ROne, o) : kd \in ScalKinds, o \in {Xn(1), SplLeaf}}
  \cup {Neg(o) : o \in Leaves}
  \cup {B2(kd, l, r) : kd \in {"Prod", "Sum", "Diff"}, l \in Leaves, r \in Leaves}
\* every ordered pair of unary wrappers (scalar forms and unary minus) around a
\* leaf: nested ScalarMultiplication / OperatorSum nodes, e.g. -(A / c), (c * A) / d
UScal(lvl) == IF lvl = 1 THEN {<<"T", RTwo>>, <<"int", FromInt(3)>>} ELSE {<<"T", R(1, 2)>>} \cup (IF Thorough THEN {<<"int", FromInt(2)>>} ELSE {})
Unary(a, lvl) == {S1(kd, s[1], s[2], a) : kd \in ScalKinds, s \in UScal(lvl)} \cup {Neg(a)}
Depth2U == UNION {Unary(i, 1) : i \in Unary(Xn(1), 2)} \cup UNION {Unary(i, 1) : i \in {Neg(Dn(1)), S1("Div", "int", RTwo, Dn(1))}}
\* the identities the property names, spelled as expressions
Commutator == B2("Diff", B2("Prod", Dn(1), Xn(1)), B2("Prod", Xn(1), Dn(1)))       \* = identity
Named == {Commutator,
          B2("Sum", S1("ScalL", "T", R(-1, 2), Dn(2)), SplLeaf),                   \* -1/2 d^2/dx^2 + v
          S1("ScalL", "T", R(-1, 2), B2("Prod", SplLeaf, Dn(1))),                  \* -1/2 (v * d/dx)
          S1("ScalL", "T", R(1, 2), S1("SubSR", "T", FromInt(3), Xn(1))),          \* generator: prefac*(X - xi)
          S1("ScalL", "T", R(1, 2), S1("SubSL", "T", FromInt(3), Xn(1))),          \* prefac*(xi - X)
          B2("Prod", Xn(2), B2("Sum", Dn(2), Xn(1))),
          Neg(Neg(Dn(1))),
          B2("Prod", B2("Prod", Dn(1), Xn(2)), Dn(1)),
          \* spline factors of order 0 (as in the diffusion example) and 2
          SplO(0), SplO(2), B2("Prod", SplO(0), Dn(1)), S1("ScalL", "T", R(-1, 2), B2("Prod", SplO(0), Dn(1))),
          B2("Sum", Dn(2), SplO(2)), B2("Prod", Xn(1), SplO(2)), S1("SubSL", "T", RTwo, SplO(0)),
          \* both operands of a binary node of the same C++ type, different run-time state
          B2("Prod", S1("ScalL", "T", RTwo, Xn(1)), S1("ScalL", "T", R(1, 2), Xn(1))),
          B2("Sum", S1("ScalL", "T", RTwo, Dn(1)), S1("ScalL", "T", FromInt(3), Dn(1))),
          B2("Diff", S1("Div", "T", RTwo, Xn(1)), S1("Div", "T", FromInt(4), Xn(1))),
          B2("Diff", S1("ScalR", "int", RTwo, Dn(1)), S1("ScalR", "int", FromInt(3), Dn(1))),
          \* higher powers of x inside expressions (binomial expansion beyond n = 3)
          B2("Prod", Xn(4), Dn(1)), B2("Sum", Xn(4), Dn(2)), S1("ScalL", "T", R(1, 2), Xn(4)),
          B2("Diff", Xn(4), B2("Prod", Xn(2), Xn(2)))}
ExtraASTs == {Extra[i] : i \in DOMAIN Extra}
Exprs == Leaves \cup Depth1 \cup Depth2U \cup Named \cup ExtraASTs

RECURSIVE HasSpl(_)
HasSpl(op) == CASE op.k = "Spl" -> TRUE
                [] op.k \in {"Id", "X", "Dx"} -> FALSE
                [] Bin(op) -> HasSpl(op.l) \/ HasSpl(op.r)
                [] OTHER -> HasSpl(op.o)

\* operands
\* N4: as many points as E4 and Z4 but other spacings (a per-process cache keyed by size or by storage address shows)
GridsOp == IF Thorough THEN {E4, N5, Off3, Z4, N4} ELSE {E4, Off3, Z4, N4}
OrdersOp == 0..3
OneVar(S, o) == SplOn(S, o, IF SupNInt(S) = 0 THEN <<>> ELSE Generic(SupNInt(S), o, 0))
TwoVar(S, o) == {OneVar(S, o)} \cup (IF SupNInt(S) = 0 THEN {} ELSE {SplOn(S, o, Generic(SupNInt(S), o, 1))})
UnitVar(S, o) == IF SupNInt(S) = 0 THEN {SplOn(S, o, <<>>)}
                 ELSE {SplOn(S, o, UnitC(SupNInt(S), o, r, k)) : r \in 1..SupNInt(S), k \in 1..(o + 1)}
RECURSIVE VoOf(_)
VoOf(op) == CASE op.k = "Spl" -> op.vo
              [] op.k \in {"Id", "X", "Dx"} -> -1
              [] Bin(op) -> Max(VoOf(op.l), VoOf(op.r))
              [] OTHER -> VoOf(op.o)
FactorsO(g, vo) == {OneVar(S, vo) : S \in SupportsOn(g)}
Factors(g) == FactorsO(g, 1)
\* a factor on another grid (C08)
ForeignFactors(g) == {OneVar(SupWhole(v), 1) : v \in GridVariants(g)}

PrimCases(e) ==
  {[op |-> "OpApply", tag |-> "prim", ast |-> e, a |-> a, fs |-> <<>>, fshare |-> 1] :
     a \in UNION {UNION {UnitVar(S, o) \cup TwoVar(S, o) : o \in OrdersOp} :
                  S \in UNION {SupportsOn(g) : g \in (IF e.k = "X" /\ e.n >= 5 THEN {E4} ELSE GridsOp \cup {N5})}}}

\* expressions that raise the power of x by four or more stay on the small grid
\* (TLC's 32-bit integers; the offset grid has midpoints around 23)
HighPower(e) == OutOrd(e, 0) >= 4
\* sampled deeper expressions get a thinner operand set: every window of the
\* small grid, two orders, one coefficient variant; four factor placements
Core == Leaves \cup Depth1 \cup Depth2U \cup Named
ExtraCases(e) ==
  IF ~HasSpl(e)
  THEN {[op |-> "OpApply", tag |-> "expr", ast |-> e, a |-> OneVar(S, o), fs |-> <<>>, fshare |-> 1] : S \in SupportsOn(E4), o \in {1, 3}}
  ELSE {[op |-> "OpApply", tag |-> "expr", ast |-> e, a |-> OneVar(S, 1), fs |-> <<OneVar(F, VoOf(e))>>, fshare |-> 1] :
          S \in SupportsOn(E4), F \in {Sup(E4, 0, 4), Sup(E4, 1, 3), Sup(E4, 0, 2), Sup(E4, 2, 4)}}
ExprCases(e) ==
  IF e \notin Core THEN ExtraCases(e) ELSE
  IF ~HasSpl(e)
  THEN {[op |-> "OpApply", tag |-> "expr", ast |-> e, a |-> a, fs |-> <<>>, fshare |-> 1] :
          a \in UNION {UNION {TwoVar(S, o) : o \in OrdersOp} : S \in UNION {SupportsOn(g) : g \in (IF HighPower(e) THEN {E4} ELSE GridsOp)}}}
  ELSE {[op |-> "OpApply", tag |-> "expr", ast |-> e, a |-> OneVar(S, o), fs |-> <<f>>, fshare |-> sh] :
          S \in SupportsOn(E4), o \in {0, 2}, f \in FactorsO(E4, VoOf(e)), sh \in {1}}
       \cup {[op |-> "OpApply", tag |-> "expr", ast |-> e, a |-> OneVar(S, 1), fs |-> <<f>>, fshare |-> 0] :
               S \in {SupWhole(E4), Sup(E4, 1, 3)}, f \in {x \in FactorsO(E4, VoOf(e)) : x.s = 0}}
       \* factor on a logically different grid: refused iff the operand has an interval (C08)
       \cup (IF e \in {SplLeaf, B2("Prod", SplLeaf, Dn(1)), B2("Sum", Dn(2), SplLeaf), S1("ScalL", "T", RTwo, SplLeaf),
                       S1("ScalL", "T", RZero, SplLeaf), S1("ScalR", "int", RZero, SplLeaf), S1("ScalL", "T", ROne, SplLeaf)}
             THEN {[op |-> "OpApply", tag |-> "foreign", ast |-> e, a |-> OneVar(S, 1), fs |-> <<f>>, fshare |-> 0] :
                     S \in SupportsOn(E4), f \in ForeignFactors(E4)}
             ELSE {})

\* bilinear forms: operator pairs x spline pairs
BFOps == IF Thorough
         THEN {Id, Dn(1), Dn(2), Xn(1), Xn(2), B2("Prod", Xn(1), Dn(1)), B2("Sum", Dn(2), Xn(1)), SplLeaf,
               S1("ScalL", "T", R(-1, 2), B2("Prod", SplLeaf, Dn(1))), S1("Div", "T", RTwo, Dn(1)),
               S1("SubSR", "uint", RTwo, Xn(1)), S1("SubSL", "ulong", FromInt(3), Dn(1)), S1("ScalL", "T", RZero, SplLeaf)}
         ELSE {Id, Dn(1), Xn(1), B2("Sum", Dn(2), Xn(1)), SplLeaf,
               \* scalars of unsigned built-in types inside forms
               S1("SubSR", "uint", RTwo, Xn(1)), S1("SubSL", "ulong", FromInt(3), Dn(1))}
BFOrders == IF Thorough THEN 0..3 ELSE 0..2
BFCases(e1) ==
  {[op |-> "OpBF", tag |-> "bf", e1 |-> e1, e2 |-> e2, a |-> OneVar(Sa, oa), b |-> OneVar(Sb, ob),
    fs |-> IF HasSpl(e1) \/ HasSpl(e2) THEN <<OneVar(Sup(E4, 1, 4), 1)>> ELSE <<>>, fshare |-> 1] :
     e2 \in BFOps, Sa \in SupportsOn(E4), Sb \in SupportsOn(E4), oa \in BFOrders, ob \in BFOrders}
  \* the same forms on a grid with as many points as E4 but other spacings
  \cup {[op |-> "OpBF", tag |-> "bf", e1 |-> e1, e2 |-> e2, a |-> OneVar(Sa, oa), b |-> OneVar(Sb, ob),
         fs |-> IF HasSpl(e1) \/ HasSpl(e2) THEN <<OneVar(Sup(N4, 1, 4), 1)>> ELSE <<>>, fshare |-> 1] :
          e2 \in {Id, Dn(1)}, Sa \in {SupWhole(N4), Sup(N4, 1, 4)}, Sb \in {SupWhole(N4), Sup(N4, 0, 3)}, oa \in {1, 2}, ob \in {1, 2}}
  \cup (IF e1 \in {Id, SplLeaf}
        THEN {[op |-> "OpBF", tag |-> "foreign", e1 |-> e1, e2 |-> e2, a |-> OneVar(Sa, 1), b |-> OneVar(Sb, 1),
               fs |-> <<f>>, fshare |-> 0] :
                e2 \in {SplLeaf, Id, S1("ScalL", "T", RZero, SplLeaf)}, Sa \in SupportsOn(E4), Sb \in {SupWhole(E4), Sup(E4, 0, 2), SupEmptyOn(E4)},
                f \in ForeignFactors(E4)}
        ELSE {})

\* operator pairs of the same C++ type that differ only in their run-time state (a scalar, the
\* multiply/divide flag, the factor spline), applied to the very same spline object: bf(a, a)
SamePairs == {<<S1("ScalL", "T", RTwo, Xn(1)), S1("ScalL", "T", R(1, 2), Xn(1))>>,
              <<S1("ScalR", "T", FromInt(3), Dn(1)), S1("ScalR", "T", FromInt(-1), Dn(1))>>,
              <<S1("Div", "T", RTwo, Xn(1)), S1("ScalR", "T", RTwo, Xn(1))>>,
              <<S1("AddSR", "T", ROne, Dn(1)), S1("AddSR", "T", RTwo, Dn(1))>>}
SameFirst == {p[1] : p \in SamePairs}
SameCases(e1) ==
  {[op |-> "OpBF", tag |-> "bf", e1 |-> e1, e2 |-> p[2], a |-> OneVar(S, o), b |-> OneVar(S, o), fs |-> <<>>, fshare |-> 1, sameobj |-> so] :
     p \in {q \in SamePairs : q[1] = e1}, S \in SupportsOn(E4), o \in 0..2, so \in {0, 1}}

\* very high orders ("every n, every spline order"): derivatives, position operator and identity on splines of
\* order 7 .. 24, incl. Dx<8..12> where (i+n)!/i! passes 2^32.  Coefficients are small multiples of 2^-20 so that
\* the exact results stay inside TLC's integers; these cases are judged on the contract only (Level I forms the
\* falling factorial as an integer first).
HiC(n, o) == [r \in 1..n |-> [k \in 1..(o + 1) |-> R(((r + k) % 3) + 1, 1048576)]]
HiLowN == {7, 8, 12, 16, 20, 21, 22, 24}
HiCombos == {<<Dn(1), o>> : o \in HiLowN} \cup {<<Dn(2), o>> : o \in HiLowN} \cup {<<Id, o>> : o \in {7, 21, 24}} \cup {<<Xn(1), o>> : o \in {7, 12, 21, 24}}
            \cup {<<Dn(8), 17>>, <<Dn(8), 20>>, <<Dn(9), 15>>, <<Dn(10), 14>>, <<Dn(10), 15>>, <<Dn(12), 13>>, <<Dn(12), 16>>, <<Dn(12), 7>>}
HiExprs == {c[1] : c \in HiCombos}
HiCases(e) ==
  {[op |-> "OpApply", tag |-> "hi", ast |-> e, a |-> SplOn(S, c[2], IF SupNInt(S) = 0 THEN <<>> ELSE HiC(SupNInt(S), c[2])), fs |-> <<>>, fshare |-> 1] :
     c \in {x \in HiCombos : x[1] = e}, S \in {SupWhole(Z4), Sup(E4, 1, 3), SupEmptyOn(E4)}}

\* size sweep (Domains!SweepGrid): operator application and forms on supports with every number of intervals
SweepExprs == {Id, Dn(1), Xn(1), SplLeaf, B2("Sum", Dn(2), Xn(1))}
SweepFactor(g, e) == IF HasSpl(e) THEN <<OneVar(IF Len(g) >= 4 THEN Sup(g, 1, Len(g) - 1) ELSE SupWhole(g), VoOf(e))>> ELSE <<>>
SweepCasesN(e, n) ==
        (LET g == SweepGrid(n)
             W == {SupWhole(g)} \cup (IF n >= 3 THEN {Sup(g, 1, n + 1)} ELSE {})
         IN {[op |-> "OpApply", tag |-> IF e \in Prims THEN "prim" ELSE "expr", ast |-> e, a |-> OneVar(S, o), fs |-> SweepFactor(g, e), fshare |-> 1] :
               S \in W, o \in {1, 2}}
            \cup {[op |-> "OpBF", tag |-> "bf", e1 |-> e, e2 |-> e2, a |-> OneVar(SupWhole(g), 2), b |-> OneVar(Sb, 1), fs |-> SweepFactor(g, e), fshare |-> 1] :
                    e2 \in {Id, Dn(1)}, Sb \in W \cup {Sup(g, (n + 1) \div 2, n + 1)}})
SweepSeq == SetToSeq(SweepExprs \X SweepSizes)

CasesFor(e) ==
  (IF e \in HiExprs THEN HiCases(e) ELSE {}) \cup
  (IF e \in SameFirst THEN SameCases(e) ELSE {}) \cup
  (IF e \in Prims THEN PrimCases(e) ELSE {})
  \cup (IF e \in Exprs THEN ExprCases(e) ELSE {})
  \cup (IF e \in BFOps THEN BFCases(e) ELSE {})

Init == \/ \E e \in Prims \cup Exprs \cup BFOps \cup SameFirst \cup HiExprs : st = [ph |-> 0, e |-> e, sw |-> 0]
        \/ \E i \in DOMAIN SweepSeq : st = [ph |-> 0, e |-> SweepSeq[i][1], sw |-> i]
Next == /\ st.ph = 0
        /\ \E c \in (IF st.sw > 0 THEN SweepCasesN(st.e, SweepSeq[st.sw][2]) ELSE CasesFor(st.e)) : st' = [ph |-> 1, c |-> c]
Spec == Init /\ [][Next]_st
\* the (long) records of one sweep state go to a file of their own: the successors of one state are written by one
\* worker, and lines beyond 8 kB written by several workers to one file can interleave
Emit == (st'.ph = 1) => CSVWrite("%1$s", <<ToJson(st'.c)>>, IF st.sw > 0 THEN OutFile \o "." \o ToString(st.sw) ELSE OutFile)

-----------------------------------------------------------------------------
Native(c) == \A i \in DOMAIN c.fs : c.fs[i].g = c.a.g

ApplyOK == st.ph = 1 /\ st.c.op = "OpApply" /\ Native(st.c) /\ st.c.tag # "hi" =>
  LET c == st.c IN
  /\ ApplyPost(c.ast, c.a, c.fs, ApplyI(c.ast, c.a, c.fs))
  /\ SizeOK(c.ast, c.a, c.fs)
  /\ LinearI(c.ast, c.a, c.fs) = LinearVal(c.ast, c.a, c.fs)
  /\ \A j \in Ivs(c.a.g) : FactorLookupInBounds(c.ast, j, c.fs)

\* (d/dx x - x d/dx) s = s, and the other identities of the statement
IdentityOK == st.ph = 1 /\ st.c.op = "OpApply" /\ st.c.ast = Commutator =>
  SameFn(ApplyI(st.c.ast, st.c.a, st.c.fs), st.c.a)

BFOK == st.ph = 1 /\ st.c.op = "OpBF" /\ Native(st.c) =>
  LET c == st.c
      v == BilinearI(c.e1, c.e2, c.a, c.b, c.fs)
  IN /\ v = BilinearVal(c.e1, c.e2, c.a, c.b, c.fs)
     /\ v = BilinearI(c.e2, c.e1, c.b, c.a, c.fs)                     \* symmetry
     /\ (Common(c.a, c.b) = {} => v = RZero)
     \* BF = LF_id of the product spline
     /\ v = LinearI(Id, MulI(ApplyI(c.e1, c.a, c.fs), ApplyI(c.e2, c.b, c.fs)), <<>>)
=============================================================================
