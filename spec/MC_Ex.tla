-------------------------------- MODULE MC_Ex --------------------------------
(***************************************************************************)
(* Inputs for the conformance runs of the example solvers (C20): TLC       *)
(* enumerates admissible inputs - grids, piecewise constant positive       *)
(* diffusion coefficients, boundary values, scale factors, potentials and  *)
(* shifts - and emits one case per input.                                  *)
(* Admissible: a positive diffusion coefficient spanning its whole grid;   *)
(* a potential on a grid with at least 21 points (the solver returns ten   *)
(* eigenpairs of a basis with points - 11 functions).                      *)
(***************************************************************************)
EXTENDS Rat, Json, CSV, IOUtils, TLC

CONSTANT TIER
Thorough == TIER = "thorough"
VARIABLE st
OutFile == IF "GEN_OUT" \in DOMAIN IOEnv THEN IOEnv.GEN_OUT ELSE "/dev/null"

Q(s) == [i \in DOMAIN s |-> FromInt(s[i])]
\* incl. few intervals of very different length (short boundary intervals): basis functions far apart in
\* the index still overlap noticeably there
DGrids == {Q(<<0, 1>>), Q(<<0, 1, 2>>), Q(<<-1, 0, 3>>), <<R(0, 1), R(1, 2), R(1, 1), R(3, 1)>>, Q(<<0, 1, 2, 3, 4>>),
           <<R(0, 1), R(1, 64), R(1, 1), R(65, 64)>>, <<R(0, 1), R(1, 100), R(1, 1), R(2, 1), R(201, 100)>>}
            \cup (IF Thorough THEN {Q(<<0, 2, 3, 4, 7, 8, 9>>), [i \in 1..11 |-> R(i - 1, 2)]} ELSE {})
DVals == {ROne, R(1, 2), RTwo, FromInt(3)}
\* piecewise constant coefficient patterns over m intervals
DPatterns(m) == {[i \in 1..m |-> ROne], [i \in 1..m |-> FromInt(3)],
                 [i \in 1..m |-> IF i % 2 = 1 THEN R(1, 2) ELSE RTwo],
                 [i \in 1..m |-> IF i = 1 THEN FromInt(3) ELSE ROne],
                 [i \in 1..m |-> IF i = m THEN R(1, 2) ELSE RTwo]}
Bounds == {<<RZero, ROne>>, <<RTwo, FromInt(-1)>>, <<ROne, ROne>>, <<R(-1, 2), RZero>>}
Scales == {RTwo, R(1, 4)}

\* sexp: the scaled coefficient is additionally multiplied by 2^-sexp in the harness (an exact
\* scaling in binary floating point): invariance must hold for EVERY positive constant, also
\* one that makes the coefficient - and the whole linear system - tiny
DiffCases(g) ==
  {[op |-> "ExDiffusion", pts |-> g, D |-> d, start |-> b[1], end |-> b[2], scale |-> k, sexp |-> sx] :
     d \in DPatterns(Len(g) - 1), b \in Bounds, k \in Scales, sx \in {0, 60}}

\* potentials: values at the grid points of a uniform grid on [-L, L]
UGrid(np, L) == [i \in 1..np |-> R(2 * L * (i - 1) - L * (np - 1), np - 1)]
Harm(g) == [i \in DOMAIN g |-> RMul(R(1, 2), RMul(g[i], g[i]))]
Well(g) == [i \in DOMAIN g |-> IF RLt(RAbs(g[i]), RTwo) THEN FromInt(-2) ELSE RZero]
Tilt(g) == [i \in DOMAIN g |-> RAdd(RMul(R(1, 2), RMul(g[i], g[i])), RMul(R(1, 4), g[i]))]
PGrids == {UGrid(21, 5), UGrid(25, 6)} \cup (IF Thorough THEN {UGrid(31, 6), UGrid(41, 8)} ELSE {})
Shifts == {ROne, R(-5, 2)} \cup (IF Thorough THEN {FromInt(10)} ELSE {})
\* a potential need not span its grid: a well on a sub-window, or no potential at all (s = e = 0)
PotCases(g) == {[op |-> "ExPotential", pts |-> g, vals |-> v, shift |-> c] : v \in {Harm(g), Well(g), Tilt(g)}, c \in Shifts}
               \cup {[op |-> "ExPotentialWin", pts |-> g, s |-> w[1], e |-> w[2], depth |-> FromInt(-2), shift |-> c] :
                       w \in {<<0, 0>>, <<Len(g) \div 3, 2 * (Len(g) \div 3)>>, <<0, Len(g) \div 2>>, <<0, Len(g)>>}, c \in Shifts}

Init == \/ \E g \in DGrids : st = [ph |-> 0, kind |-> "d", g |-> g]
        \/ \E g \in PGrids : st = [ph |-> 0, kind |-> "p", g |-> g]
        \/ st = [ph |-> 0, kind |-> "fixed", g |-> <<>>]
Next == /\ st.ph = 0
        /\ \E c \in (IF st.kind = "d" THEN DiffCases(st.g)
                     ELSE IF st.kind = "p" THEN PotCases(st.g)
                     ELSE {[op |-> "ExOscillator"], [op |-> "ExHydrogen"]}) : st' = [ph |-> 1, c |-> c]
Spec == Init /\ [][Next]_st
Emit == (st'.ph = 1) => CSVWrite("%1$s", <<ToJson(st'.c)>>, OutFile)

\* the enumerated inputs are admissible
Admissible == st.ph = 1 =>
  CASE st.c.op = "ExDiffusion" -> /\ \A i \in DOMAIN st.c.D : RGt(st.c.D[i], RZero)
                                  /\ Len(st.c.D) = Len(st.c.pts) - 1 /\ RGt(st.c.scale, RZero)
                                  /\ \A i \in 1..(Len(st.c.pts) - 1) : RLt(st.c.pts[i], st.c.pts[i + 1])
    [] st.c.op = "ExPotential" -> Len(st.c.pts) >= 21 /\ Len(st.c.vals) = Len(st.c.pts)
    [] st.c.op = "ExPotentialWin" -> Len(st.c.pts) >= 21 /\ ((st.c.s = 0 /\ st.c.e = 0) \/ (st.c.s < st.c.e /\ st.c.e <= Len(st.c.pts)))
    [] OTHER -> TRUE
=============================================================================
