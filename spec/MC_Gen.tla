-------------------------------- MODULE MC_Gen --------------------------------
(***************************************************************************)
(* Model checking + case generation for the B-spline generator (C01, and   *)
(* the generator parts of C08/C11).                                        *)
(*   st = [ph |-> 0, k |-> knot vector] --> [ph |-> 1, c |-> case]         *)
(* On ph-0 states TLC checks the theorems of the Cox-de Boor definition,   *)
(* on ph-1 states Level I => Level A.                                      *)
(***************************************************************************)
EXTENDS Generator, Domains, Json, CSV, IOUtils

VARIABLE st
OutFile == IF "GEN_OUT" \in DOMAIN IOEnv THEN IOEnv.GEN_OUT ELSE "/dev/null"

RECURSIVE ND(_, _, _)
ND(L, lo, n) == IF L = 0 THEN {<<>>}
                ELSE UNION {{<<v>> \o s : s \in ND(L - 1, v, n)} : v \in lo..n}

MaxLen == IF Thorough THEN 9 ELSE 6
MaxP == IF Thorough THEN 4 ELSE 3
ValueSets == IF Thorough
             THEN {Q(<<0, 2, 4, 6, 8>>), Q(<<-7, -4, 0, 1, 8>>), Q(<<-7, -1, 1, 4>>), Q(<<20, 22, 24, 28>>), <<R(0, 1), R(1, 8), R(1, 2), R(1, 1), R(3, 1)>>}
             ELSE {Q(<<0, 2, 4, 6>>), Q(<<-7, -1, 1, 4>>)}   \* [-1, 1]: a knot interval whose midpoint is exactly 0
MaxLenFor(V) == IF Thorough /\ Len(V) = 5 /\ V[1] # RZero THEN 7 ELSE MaxLen

KnotVectors == UNION {UNION {{[i \in 1..L |-> V[s[i]]] : s \in ND(L, 1, Len(V))} : L \in 1..MaxLenFor(V)} : V \in ValueSets}
ValidKV == {k \in KnotVectors : KnotsValid(k)}

\* malformed knot vectors (C11): decreasing somewhere, constant, single, empty
BadKV == {<<>>, Q(<<1>>), Q(<<2, 2, 2>>), Q(<<0, 2, 1>>), Q(<<2, 0>>), Q(<<0, 1, 1, 0>>), Q(<<0, 0, 2, 2, 1, 3>>), Q(<<3, 2, 1>>),
          Q(<<0, 2, 4, 3>>)}

\* fractional knots: TLC's 32-bit integers bound the order (denominators grow like 16^p)
Fractional(k) == \E i \in DOMAIN k : k[i][2] # 1
MaxPK(k) == IF Fractional(k) THEN Min(MaxP, 2) ELSE MaxP
CasesFor(k) ==
  IF KnotsValid(k)
  THEN {[op |-> "Gen", knots |-> k, p |-> p, route |-> r, grid |-> Uniq(k)] : p \in 0..MaxPK(k), r \in {0, 1, 2}}
       \* a supplied grid that does not match the knots is refused (C08 / C11)
       \cup {[op |-> "Gen", knots |-> k, p |-> 1, route |-> 1, grid |-> v] :
               v \in (IF Len(k) <= 4 THEN GridVariants(Uniq(k)) ELSE {})}
  ELSE {[op |-> "Gen", knots |-> k, p |-> p, route |-> r, grid |-> Q(<<0, 1>>)] : p \in {0, 2}, r \in {0, 2}}

\* Three levels so that the (expensive) theorem checks on knot vectors are spread
\* over all TLC workers: buckets (value set, length, first two knots) -> knot
\* vectors -> cases.  Initial states are the buckets.
Buckets == {<<V, L, a, b>> : V \in ValueSets, L \in 1..MaxLen, a \in 1..5, b \in 1..5}
InBucket(B) ==
  LET V == B[1]
      L == B[2]
  IN IF L > MaxLenFor(V) \/ B[3] > Len(V) \/ B[4] > Len(V) \/ B[3] > B[4] \/ (L = 1 /\ B[3] # B[4]) THEN {}
     ELSE {k \in {[i \in 1..L |-> V[s[i]]] : s \in {t \in ND(L, 1, Len(V)) : t[1] = B[3] /\ (L = 1 \/ t[2] = B[4])}} : KnotsValid(k)}
\* size sweep: long knot vectors (a triple knot at both ends and a double knot in the middle / simple knots only)
\* (the same sizes in both tiers: the thorough tier's own knot families already take most of its TLC time)
GenSweepM == {9, 12, 16, 17, 18, 24, 32, 33, 34, 40, 65}
KnotSweep(m) == [i \in 1..m |-> FromInt(2 * (Max(0, Min(i - 3, m - 5)) - (IF i > m \div 2 THEN 1 ELSE 0)) - (m - 6))]
KnotSimple(m) == [i \in 1..m |-> FromInt(2 * i - m + (IF i % 3 = 0 THEN 1 ELSE 0))]
Init == \/ \E B \in Buckets : st = [ph |-> -1, b |-> B]
        \/ \E m \in GenSweepM : \E k \in {KnotSweep(m), KnotSimple(m)} : st = [ph |-> 0, k |-> k]
        \/ st = [ph |-> -1, b |-> <<>>]
Next == \/ /\ st.ph = -1
           /\ \E k \in (IF st.b = <<>> THEN BadKV ELSE InBucket(st.b)) : st' = [ph |-> 0, k |-> k]
        \/ /\ st.ph = 0
           /\ \E c \in CasesFor(st.k) : st' = [ph |-> 1, c |-> c]
Spec == Init /\ [][Next]_st
Emit == (st'.ph = 1) => CSVWrite("%1$s", <<ToJson(st'.c)>>, OutFile)

-----------------------------------------------------------------------------
Ps(k) == {p \in 0..MaxPK(k) : Len(k) >= p + 1}

TheoremsOK == st.ph = 0 /\ KnotsValid(st.k) =>
  \A p \in Ps(st.k) :
     /\ LocalSupport(st.k, p) /\ PartitionOfUnity(st.k, p)
     /\ IntegralIdentity(st.k, p) /\ Smooth(st.k, p) /\ NonNegative(st.k, p)

AcceptOK == st.ph = 0 => (KnotsAcceptedI(st.k) <=> KnotsValid(st.k))

GenOK == st.ph = 1 /\ KnotsValid(st.c.knots) /\ st.c.grid = Uniq(st.c.knots) /\ Len(st.c.knots) >= st.c.p + 1 =>
  GenPost(st.c.knots, st.c.p, GenI(st.c.knots, st.c.p))
=============================================================================
