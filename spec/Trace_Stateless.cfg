SPECIFICATION Spec
CONSTANTS
  WBITS = 5
  Bug_AtWraps = FALSE
  Bug_IntervalWraps = FALSE
INVARIANT Explained
CHECK_DEADLOCK FALSE
