----------------------------- MODULE GridSupport -----------------------------
(***************************************************************************)
(* Grids and supports (Grid.h, Support.h).                                 *)
(*                                                                         *)
(*   grid     a tuple of rationals  pts                                    *)
(*   support  a record [g |-> pts, s |-> start, e |-> end]: the grid       *)
(*            points with 0-based index s .. e-1 (the code's               *)
(*            _startIndex/_endIndex)                                       *)
(*                                                                         *)
(* Level A (contract) operators end in "Post" or are plain predicates.     *)
(* Level I (implementation shaped) operators end in "I"; the index         *)
(* conversions are modelled in arithmetic modulo 2^W (module parameter     *)
(* WBITS) because the code computes in size_t and the property (C13, C09)  *)
(* quantifies over the whole index type.  An index of the real code is     *)
(* mapped to the model by   small <-> small,  2^64 - k <-> 2^W - k.        *)
(***************************************************************************)
EXTENDS Poly, FiniteSets

CONSTANTS WBITS,            \* width of the model's index word
          Bug_AtWraps,      \* Support::at computes  start+index >= end      (pinned tree, D2)
          Bug_IntervalWraps,\* intervalIndexFromAbsolute computes index+1<end (pinned tree, D3)
          Bug_GridScanGE    \* the strictly-increasing scan tests  a >= b  (pinned tree, D1)

None == -1                       \* "std::nullopt" / "not contained" / "throws" for index results
NoneR == <<>>                    \* "throws" for results that are grid points (a rational is a pair)
WMod == 2 ^ WBITS
WAdd(a, b) == (a + b) % WMod
WSub(a, b) == (a - b + WMod) % WMod

-----------------------------------------------------------------------------
\* Grids

\* special values in floating grids are modelled by tagged triples in the
\* validation family (module Validation); here points are rationals.
GridValid(pts) == /\ Len(pts) >= 2
                  /\ \A i \in 1..(Len(pts) - 1) : RLt(pts[i], pts[i + 1])

GridEq(p, q) == p = q            \* logical equality: same points

\* Grids of a floating type may contain special values.  An extended value is a
\* triple <<tag, n, d>>: tag 0 = the number n/d, 1 = NaN, 2 = +Inf, 3 = -Inf,
\* 4 = -0.0.  Every comparison with NaN is false.
XVal(t) == IF t[1] = 4 THEN RZero ELSE R(t[2], t[3])
XLt(a, b) == CASE a[1] = 1 \/ b[1] = 1 -> FALSE
               [] a[1] = 3 -> b[1] # 3                                   \* -Inf < everything but -Inf
               [] b[1] = 2 -> a[1] # 2                                   \* everything but +Inf < +Inf
               [] a[1] = 2 \/ b[1] = 3 -> FALSE
               [] OTHER -> RLt(XVal(a), XVal(b))
XEq(a, b) == CASE a[1] = 1 \/ b[1] = 1 -> FALSE
               [] a[1] \in {2, 3} \/ b[1] \in {2, 3} -> a[1] = b[1]
               [] OTHER -> XVal(a) = XVal(b)
XGe(a, b) == XLt(b, a) \/ XEq(a, b)
\* the documented condition: at least two points, each strictly smaller than its successor
XGridValid(p) == Len(p) >= 2 /\ \A i \in 1..(Len(p) - 1) : XLt(p[i], p[i + 1])
\* Level I: Grid::checkValidity / isSteadilyIncreasing as written
XGridAcceptsI(p) ==
  /\ Len(p) >= 2
  /\ \A i \in 2..Len(p) : IF Bug_GridScanGE THEN ~XGe(p[i - 1], p[i]) ELSE XLt(p[i - 1], p[i])

\* findElement: index of x, or None (the code throws INCONSISTENT_DATA)
GridFind(pts, x) == IF \E i \in DOMAIN pts : pts[i] = x
                    THEN (CHOOSE i \in DOMAIN pts : pts[i] = x) - 1
                    ELSE None

\* Level I: lower_bound, then the equality test
RECURSIVE LowerBoundFrom(_, _, _)
LowerBoundFrom(pts, x, i) ==      \* first 1-based position k >= i with ~(pts[k] < x)
  IF i > Len(pts) THEN i
  ELSE IF RLt(pts[i], x) THEN LowerBoundFrom(pts, x, i + 1) ELSE i
GridFindI(pts, x) == LET k == LowerBoundFrom(pts, x, 1)
                     IN IF k > Len(pts) \/ pts[k] # x THEN None ELSE k - 1

-----------------------------------------------------------------------------
\* Supports, Level A

SupValid(S) == /\ GridValid(S.g)
               /\ \/ (S.s = 0 /\ S.e = 0)
                  \/ (S.s < S.e /\ S.e <= Len(S.g) /\ S.s >= 0)

Sup(g, s, e) == [g |-> g, s |-> s, e |-> e]
SupEmptyOn(g) == Sup(g, 0, 0)
SupWhole(g) == Sup(g, 0, Len(g))

SupPts(S) == S.s .. (S.e - 1)                  \* set of grid-point indices
SupSize(S) == S.e - S.s
SupIsEmpty(S) == S.s = S.e
SupNInt(S) == IF SupSize(S) >= 2 THEN SupSize(S) - 1 ELSE 0
SupHasIntervals(S) == SupSize(S) > 1
SupIvs(S) == S.s .. (S.e - 2)                  \* set of interval indices (j = points j, j+1)

SupSameGrid(a, b) == GridEq(a.g, b.g)
SupEq(a, b) == SupSameGrid(a, b) /\ SupPts(a) = SupPts(b)

SetMin(S) == CHOOSE x \in S : \A y \in S : x <= y
SetMax(S) == CHOOSE x \in S : \A y \in S : x >= y
Hull(S) == IF S = {} THEN {} ELSE SetMin(S) .. SetMax(S)

\* union: the smallest contiguous window that contains both
UnionPost(a, b, r) == /\ SupValid(r) /\ GridEq(r.g, a.g)
                      /\ SupPts(r) = Hull(SupPts(a) \cup SupPts(b))
\* intersection: exactly the common points
InterPost(a, b, r) == /\ SupValid(r) /\ GridEq(r.g, a.g)
                      /\ SupPts(r) = SupPts(a) \cap SupPts(b)

\* index conversions on *true* (unbounded) indices
RelFromAbs(S, i)  == IF i \in SupPts(S) THEN i - S.s ELSE None
IvFromAbs(S, i)   == IF i \in SupIvs(S) THEN i - S.s ELSE None
AbsFromRel(S, i)  == IF i >= 0 /\ i < SupSize(S) THEN i + S.s ELSE None   \* None = throws
SupAt(S, i)       == IF i >= 0 /\ i < SupSize(S) THEN S.g[S.s + i + 1] ELSE NoneR  \* NoneR = throws
SupFront(S)       == IF SupIsEmpty(S) THEN NoneR ELSE S.g[S.s + 1]
SupBack(S)        == IF SupIsEmpty(S) THEN NoneR ELSE S.g[S.e]
SupIter(S)        == [k \in 1..SupSize(S) |-> S.g[S.s + k]]              \* begin()..end()

-----------------------------------------------------------------------------
\* Supports, Level I (as the code computes)

SupAcceptsI(n, s, e) ==            \* Support::checkValidity on (grid size n, s, e)
  LET isEmpty == s = 0 /\ e = 0
      containsElement == e > s
      withinBounds == e <= n
  IN isEmpty \/ (containsElement /\ withinBounds)

UnionI(a, b) ==
  IF SupIsEmpty(a) /\ SupIsEmpty(b) THEN SupEmptyOn(a.g)
  ELSE IF SupIsEmpty(a) THEN b
  ELSE IF SupIsEmpty(b) THEN a
  ELSE Sup(a.g, Min(a.s, b.s), Max(a.e, b.e))

InterI(a, b) ==
  LET ns == Max(a.s, b.s)
      ne == Min(a.e, b.e)
  IN IF ns >= ne THEN SupEmptyOn(a.g) ELSE Sup(a.g, ns, ne)

EqI(a, b) == /\ SupSameGrid(a, b)
             /\ \/ (a.s = b.s /\ a.e = b.e)
                \/ (SupIsEmpty(a) /\ SupIsEmpty(b))

\* index word arithmetic; i is a model word 0..WMod-1
RelFromAbsI(S, i) == IF i >= S.s /\ i < S.e THEN WSub(i, S.s) ELSE None
IvFromAbsI(S, i)  ==
  IF Bug_IntervalWraps
  THEN IF i >= S.s /\ WAdd(i, 1) < S.e THEN WSub(i, S.s) ELSE None
  ELSE IF i >= S.s /\ i < S.e /\ WAdd(i, 1) < S.e /\ WAdd(i, 1) > i   \* any wrap-free formulation
       THEN WSub(i, S.s) ELSE None
AbsFromRelI(S, i) == IF i >= WSub(S.e, S.s) THEN None ELSE WAdd(i, S.s)
AtI(S, i) ==
  IF Bug_AtWraps
  THEN IF WAdd(S.s, i) >= S.e THEN NoneR
       ELSE LET k == WAdd(S.s, i) IN IF k >= Len(S.g) THEN NoneR ELSE S.g[k + 1]
  ELSE IF i >= WSub(S.e, S.s) THEN NoneR ELSE S.g[WAdd(S.s, i) + 1]

\* every sequence access of Level I is inside its sequence (C09, NoOOB)
AtNoOOB(S, i) ==
  LET k == WAdd(S.s, i)
  IN (AtI(S, i) # NoneR) => (k >= 0 /\ k < Len(S.g))
=============================================================================
