------------------------------ MODULE Generator ------------------------------
(***************************************************************************)
(* B-spline generation (BSplineGenerator.h).                               *)
(*   knots  a tuple of rationals (code index i  <->  k[i+1])               *)
(* Level A: the Cox-de Boor recursion on polynomials in the local variable *)
(* of each grid interval, with zero-width terms dropped, and the theorems  *)
(* that make it the right definition (local support, partition of unity,   *)
(* smoothness, integral).                                                  *)
(* Level I: the recursion as the code runs it - zeroth order splines via   *)
(* findElement, then  ret = prefac*(X<1> - t_i) * B_i ;                    *)
(* ret += prefac*(t_{i+k} - X<1>) * B_{i+1}  through Ops and SplineAlg.    *)
(***************************************************************************)
EXTENDS Forms

RECURSIVE Uniq(_)
Uniq(k) == IF Len(k) <= 1 THEN k
           ELSE IF k[1] = k[2] THEN Uniq(Tail(k)) ELSE <<k[1]>> \o Uniq(Tail(k))

NonDecreasing(k) == \A i \in 1..(Len(k) - 1) : RLe(k[i], k[i + 1])
KnotsValid(k) == NonDecreasing(k) /\ Len(Uniq(k)) >= 2
\* what the generator constructor accepts: the de-duplicated knots form a grid
KnotsAcceptedI(k) == GridValid(Uniq(k))

-----------------------------------------------------------------------------
\* Level A

RECURSIVE CdB(_, _, _, _, _)
\* B_{i,p} on grid interval j of g = Uniq(k), as a polynomial in u = x - Mid(g, j)
CdB(k, g, i, p, j) ==
  IF p = 0
  THEN IF RLt(k[i + 1], k[i + 2]) /\ g[j + 1] = k[i + 1] THEN <<ROne>> ELSE <<>>
  ELSE LET xm == Mid(g, j)
           t1 == IF RLt(k[i + 1], k[i + p + 1])
                 THEN PScale(RDiv(ROne, RSub(k[i + p + 1], k[i + 1])),
                             PTimesLin(CdB(k, g, i, p - 1, j), RSub(xm, k[i + 1])))
                 ELSE <<>>
           t2 == IF RLt(k[i + 2], k[i + p + 2])
                 THEN PScale(RDiv(ROne, RSub(k[i + p + 2], k[i + 2])),
                             PNeg(PTimesLin(CdB(k, g, i + 1, p - 1, j), RSub(xm, k[i + p + 2]))))
                 ELSE <<>>
       IN PTrim(PAdd(t1, t2))

GenPost(k, p, out) ==
  LET g == Uniq(k) IN
  /\ Len(out) = Len(k) - p - 1
  /\ \A i \in DOMAIN out :
       /\ SplValid(out[i]) /\ out[i].g = g /\ out[i].o = p
       /\ \A j \in Ivs(g) : DenAt(out[i], j) = CdB(k, g, i - 1, p, j)

\* --- theorems about the definition (checked by TLC on every enumerated knot vector)
NumB(k, p) == Len(k) - p - 1
IvInside(g, j, lo, hi) == RLe(lo, g[j + 1]) /\ RLe(g[j + 2], hi)

LocalSupport(k, p) ==
  LET g == Uniq(k) IN
  \A i \in 0..(NumB(k, p) - 1) : \A j \in Ivs(g) :
     CdB(k, g, i, p, j) # <<>> => IvInside(g, j, k[i + 1], k[i + p + 2])

PartitionOfUnity(k, p) ==
  LET g == Uniq(k)
      m == Len(k)
      RECURSIVE acc(_, _)
      acc(i, j) == IF i < 0 THEN <<>> ELSE PAdd(acc(i - 1, j), CdB(k, g, i, p, j))
  IN m >= 2 * p + 1 =>
     \A j \in Ivs(g) : IvInside(g, j, k[p + 1], k[m - p]) => PTrim(acc(NumB(k, p) - 1, j)) = <<ROne>>

IntegralIdentity(k, p) ==
  LET g == Uniq(k) IN
  \A i \in 0..(NumB(k, p) - 1) :
     RSumSeq([j1 \in 1..NIv(g) |-> PIntSym(CdB(k, g, i, p, j1 - 1), Half(g, j1 - 1))])
       = RDiv(RSub(k[i + p + 2], k[i + 1]), FromInt(p + 1))

Multiplicity(k, x) == Cardinality({i \in DOMAIN k : k[i] = x})
\* C^{p - mu} at every interior grid point: one-sided derivatives of the
\* neighbouring pieces agree up to order p - mu
Smooth(k, p) ==
  LET g == Uniq(k) IN
  \A i \in 0..(NumB(k, p) - 1) : \A j \in 1..(NIv(g) - 1) :      \* grid point g[j+1] between intervals j-1 and j
     LET mu == Multiplicity(k, g[j + 1])
         L == CdB(k, g, i, p, j - 1)
         Rr == CdB(k, g, i, p, j)
     IN \A d \in 0..(p - mu) :
          PEvalPow(PDerivN(L, d), Half(g, j - 1)) = PEvalPow(PDerivN(Rr, d), RNeg(Half(g, j)))

NonNegative(k, p) ==
  LET g == Uniq(k) IN
  \A i \in 0..(NumB(k, p) - 1) : \A j \in Ivs(g) :
     \A u \in {RNeg(Half(g, j)), RZero, Half(g, j), RDiv(Half(g, j), RTwo)} :
        RGe(PEvalPow(CdB(k, g, i, p, j), u), RZero)

-----------------------------------------------------------------------------
\* Level I

Zeroth(k, g, i) ==
  IF k[i + 1] = k[i + 2] THEN EmptySpl(g, 0)
  ELSE LET gi == GridFindI(g, k[i + 1]) IN Spl(g, gi, gi + 2, 0, <<<<ROne>>>>)

X1 == [k |-> "X", n |-> 1]
OpLeft(pre, t)  == [k |-> "ScalL", t |-> "T", v |-> pre, o |-> [k |-> "SubSR", t |-> "T", v |-> t, o |-> X1]]
OpRight(pre, t) == [k |-> "ScalL", t |-> "T", v |-> pre, o |-> [k |-> "SubSL", t |-> "T", v |-> t, o |-> X1]]

Recur(k, g, q, i, si, sip1) ==
  LET xi == k[i + 1]
      xipkm1 == k[i + q + 1]
      xip1 == k[i + 2]
      xipk == k[i + q + 2]
      ret1 == IF RGt(xipkm1, xi)
              THEN ApplyI(OpLeft(RDiv(ROne, RSub(xipkm1, xi)), xi), si, <<>>)
              ELSE EmptySpl(g, q)
  IN IF RGt(xipk, xip1)
     THEN AddI(ret1, ApplyI(OpRight(RDiv(ROne, RSub(xipk, xip1)), xipk), sip1, <<>>))
     ELSE ret1

RECURSIVE GenLevel(_, _, _)
GenLevel(k, g, q) ==
  IF q = 0 THEN [i \in 1..(Len(k) - 1) |-> Zeroth(k, g, i - 1)]
  ELSE LET low == GenLevel(k, g, q - 1)
       IN [i \in 1..(Len(k) - q - 1) |-> Recur(k, g, q, i - 1, low[i], low[i + 1])]

GenI(k, p) == GenLevel(k, Uniq(k), p)
=============================================================================
