--------------------------- MODULE Apalache_Index ---------------------------
(***************************************************************************)
(* The integer index algebra of Support.h over UNBOUNDED integers and the  *)
(* true modulus of the index type (2^64), for Apalache (SMT).              *)
(*                                                                         *)
(*  - window lattice laws for arbitrary grid sizes and windows;            *)
(*  - the index conversions and the checked accessor as the repaired code  *)
(*    computes them (arithmetic modulo M = 2^64) agree with the contract   *)
(*    for EVERY index value 0 <= i < M and every valid window;             *)
(*  - BugAt / BugIv: the pinned tree's formulations, which Apalache must   *)
(*    refute (counterexample i = 2^64 - 1).                                *)
(* Run: apalache-mc check --length=0 --inv=<Inv> Apalache_Index.tla        *)
(***************************************************************************)
EXTENDS Integers

VARIABLES
  \* @type: Int;
  n,
  \* @type: Int;
  s1,
  \* @type: Int;
  e1,
  \* @type: Int;
  s2,
  \* @type: Int;
  e2,
  \* @type: Int;
  s3,
  \* @type: Int;
  e3,
  \* @type: Int;
  i

M == 18446744073709551616      \* 2^64

Valid(s, e) == (s = 0 /\ e = 0) \/ (0 <= s /\ s < e /\ e <= n)
IsEmpty(s, e) == s = e
Min2(a, b) == IF a < b THEN a ELSE b
Max2(a, b) == IF a < b THEN b ELSE a

\* union / intersection as the code computes them (start, end)
US(sa, ea, sb, eb) == IF IsEmpty(sa, ea) /\ IsEmpty(sb, eb) THEN 0 ELSE IF IsEmpty(sa, ea) THEN sb ELSE IF IsEmpty(sb, eb) THEN sa ELSE Min2(sa, sb)
UE(sa, ea, sb, eb) == IF IsEmpty(sa, ea) /\ IsEmpty(sb, eb) THEN 0 ELSE IF IsEmpty(sa, ea) THEN eb ELSE IF IsEmpty(sb, eb) THEN ea ELSE Max2(ea, eb)
IS(sa, ea, sb, eb) == IF Max2(sa, sb) >= Min2(ea, eb) THEN 0 ELSE Max2(sa, sb)
IE(sa, ea, sb, eb) == IF Max2(sa, sb) >= Min2(ea, eb) THEN 0 ELSE Min2(ea, eb)

In(x, s, e) == s <= x /\ x < e

Init == /\ n \in Int /\ s1 \in Int /\ e1 \in Int /\ s2 \in Int /\ e2 \in Int /\ s3 \in Int /\ e3 \in Int /\ i \in Int
        /\ n >= 2 /\ n < M \div 2
        /\ Valid(s1, e1) /\ Valid(s2, e2) /\ Valid(s3, e3)
        /\ 0 <= i /\ i < M
Next == UNCHANGED <<n, s1, e1, s2, e2, s3, e3, i>>

\* ---- lattice laws (unbounded grid size and windows)
LatticeLaws ==
  LET us == US(s1, e1, s2, e2)
      ue == UE(s1, e1, s2, e2)
      is == IS(s1, e1, s2, e2)
      ie == IE(s1, e1, s2, e2)
  IN /\ Valid(us, ue) /\ Valid(is, ie)
     \* union contains both, intersection is exactly the common points
     /\ \A x \in {s1, e1 - 1, s2, e2 - 1} : (In(x, s1, e1) \/ In(x, s2, e2)) => In(x, us, ue)
     /\ (~IsEmpty(is, ie) => is = Max2(s1, s2) /\ ie = Min2(e1, e2) /\ In(is, s1, e1) /\ In(is, s2, e2))
     /\ (IsEmpty(is, ie) => ~(\E x \in {s1, s2, e1 - 1, e2 - 1} : In(x, s1, e1) /\ In(x, s2, e2)))
     \* smallest: the hull's ends are ends of an operand
     /\ (~IsEmpty(us, ue) => (us = s1 \/ us = s2) /\ (ue = e1 \/ ue = e2))
     \* commutative, idempotent
     /\ us = US(s2, e2, s1, e1) /\ ue = UE(s2, e2, s1, e1) /\ is = IS(s2, e2, s1, e1) /\ ie = IE(s2, e2, s1, e1)
     /\ US(s1, e1, s1, e1) = s1 /\ UE(s1, e1, s1, e1) = e1 /\ IS(s1, e1, s1, e1) = s1 /\ IE(s1, e1, s1, e1) = e1
     \* associative
     /\ US(us, ue, s3, e3) = US(s1, e1, US(s2, e2, s3, e3), UE(s2, e2, s3, e3))
     /\ UE(us, ue, s3, e3) = UE(s1, e1, US(s2, e2, s3, e3), UE(s2, e2, s3, e3))
     /\ IS(is, ie, s3, e3) = IS(s1, e1, IS(s2, e2, s3, e3), IE(s2, e2, s3, e3))
     /\ IE(is, ie, s3, e3) = IE(s1, e1, IS(s2, e2, s3, e3), IE(s2, e2, s3, e3))

\* ---- index conversions over the whole index type (window 1, index i)
Contained == In(i, s1, e1)
IvContained == In(i, s1, e1) /\ In(i + 1, s1, e1)
\* repaired code, size_t arithmetic modulo M
RelOK == (i >= s1 /\ i < e1) <=> Contained
IvOK == (i >= s1 /\ i < e1 /\ (i + 1) % M < e1) <=> IvContained
AtThrowsOK == (i >= (e1 - s1) % M) <=> ~In(s1 + i, s1, e1)
AtInGrid == ~(i >= (e1 - s1) % M) => (s1 + i) % M < n /\ (s1 + i) % M = s1 + i
AbsOK == (i >= (e1 - s1) % M) <=> ~(i < e1 - s1)
IndexLaws == RelOK /\ IvOK /\ AtThrowsOK /\ AtInGrid /\ AbsOK

\* ---- the pinned formulations (must be refuted)
BugIv == ((i >= s1 /\ (i + 1) % M < e1) <=> IvContained)
BugAt == (((s1 + i) % M >= e1) <=> ~In(s1 + i, s1, e1))
=============================================================================
