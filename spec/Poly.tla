-------------------------------- MODULE Poly --------------------------------
(***************************************************************************)
(* Polynomials with rational coefficients as tuples: p[1] is the constant  *)
(* term, p[k] the coefficient of u^(k-1).  A polynomial may carry trailing *)
(* zeros (the library stores order+1 coefficients whatever the degree);    *)
(* PTrim removes them, so two tuples denote the same polynomial iff their  *)
(* PTrim are equal.  The zero polynomial trims to << >>.                    *)
(*                                                                         *)
(* Everything here is the textbook definition (Level A).  The operators    *)
(* that mirror how the library computes (Horner, binomial re-expansion,    *)
(* even-power kernels) live next to the code they model (SplineAlg, Ops,   *)
(* Forms) and are compared against these.                                  *)
(***************************************************************************)
EXTENDS Rat

RECURSIVE PTrim(_)
PTrim(p) == IF p = <<>> THEN <<>>
            ELSE IF RIsZero(p[Len(p)]) THEN PTrim(SubSeq(p, 1, Len(p) - 1))
            ELSE p

PCoef(p, k) == IF k >= 1 /\ k <= Len(p) THEN p[k] ELSE RZero   \* 1-based

PZeros(n) == [k \in 1..n |-> RZero]
PPad(p, n) == [k \in 1..n |-> PCoef(p, k)]                      \* n >= Len(p)
PUnit(n, i) == [k \in 1..n |-> IF k = i THEN ROne ELSE RZero]
PIsZero(p) == \A k \in DOMAIN p : RIsZero(p[k])
PEquiv(p, q) == PTrim(p) = PTrim(q)

PAdd(p, q) == [k \in 1..Max(Len(p), Len(q)) |-> RAdd(PCoef(p, k), PCoef(q, k))]
PNeg(p) == [k \in DOMAIN p |-> RNeg(p[k])]
PSub(p, q) == PAdd(p, PNeg(q))
PScale(c, p) == [k \in DOMAIN p |-> RMul(c, p[k])]

\* convolution
PMul(p, q) ==
  IF p = <<>> \/ q = <<>> THEN <<>>
  ELSE [k \in 1..(Len(p) + Len(q) - 1) |->
          RSumSeq([i \in 1..Len(p) |-> RMul(p[i], PCoef(q, k - i + 1))])]

PDeriv(p) == IF Len(p) <= 1 THEN <<>>
             ELSE [k \in 1..(Len(p) - 1) |-> RMul(FromInt(k), p[k + 1])]
RECURSIVE PDerivN(_, _)
PDerivN(p, n) == IF n = 0 THEN p ELSE PDerivN(PDeriv(p), n - 1)

\* (u + a) * p(u), one linear factor
PTimesLin(p, a) ==
  IF p = <<>> THEN <<>>
  ELSE [k \in 1..(Len(p) + 1) |-> RAdd(PCoef(p, k - 1), RMul(a, PCoef(p, k)))]
RECURSIVE PTimesLinN(_, _, _)
PTimesLinN(p, a, n) == IF n = 0 THEN p ELSE PTimesLinN(PTimesLin(p, a), a, n - 1)

\* value by the power sum (the definition)
PEvalPow(p, x) == RSumSeq([k \in DOMAIN p |-> RMul(p[k], RPow(x, k - 1))])

\* integral over [-h, h] by the antiderivative at both ends (no parity trick)
PIntSym(p, h) ==
  RSumSeq([k \in DOMAIN p |->
     RMul(p[k], RDiv(RSub(RPow(h, k), RPow(RNeg(h), k)), FromInt(k)))])

\* antiderivative with zero constant, and integral over [a, b]
PAnti(p) == IF p = <<>> THEN <<>>
            ELSE [k \in 1..(Len(p) + 1) |->
                    IF k = 1 THEN RZero ELSE RDiv(p[k - 1], FromInt(k - 1))]
PIntAB(p, a, b) == RSub(PEvalPow(PAnti(p), b), PEvalPow(PAnti(p), a))

\* sum of absolute values of the terms of p at |x| (magnitude for C16)
PAbs(p) == [k \in DOMAIN p |-> RAbs(p[k])]

\* polynomial compose with shift: q(u) = p(u + a)   (used to relate pieces
\* expressed about different midpoints, e.g. smoothness across a knot)
RECURSIVE PShift(_, _)
PShift(p, a) ==
  IF p = <<>> THEN <<>>
  ELSE PAdd(<<p[1]>>, PTimesLin(PShift(Tail(p), a), a))
=============================================================================
