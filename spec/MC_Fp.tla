-------------------------------- MODULE MC_Fp --------------------------------
(***************************************************************************)
(* Case generation for the floating-point relation (C16, C17; DESIGN 2.7). *)
(* TLC has no floats.  For every case it supplies                          *)
(*    E  the exact rational result (Level I, already shown to refine the   *)
(*       contract by the exact families), and                              *)
(*    S  its magnitude: the same Level-I operator evaluated in abs mode    *)
(*       (every input replaced by its absolute value, every subtraction    *)
(*       by an addition) - the sum of the absolute values of the terms in  *)
(*       the midpoint formulation, an upper bound of any reasonable        *)
(*       reading of "the terms involved".                                  *)
(* The harness runs the real library in float, double and long double on   *)
(* the same (dyadic, exactly representable) inputs and evaluates           *)
(*    |F - E| <= 2^20 * eps_T * S     per coefficient / value.             *)
(* Inputs are well scaled: |grid| <= 8, spacing >= 1/8, orders <= 6.       *)
(***************************************************************************)
EXTENDS Generator, Domains, Json, CSV, IOUtils, SequencesExt

VARIABLE st
OutFile == IF "GEN_OUT" \in DOMAIN IOEnv THEN IOEnv.GEN_OUT ELSE "/dev/null"

-----------------------------------------------------------------------------
\* abs mode
PAbsT(t) == [k \in DOMAIN t |-> RAbs(t[k])]
GAbs(g) == [i \in DOMAIN g |-> RAbs(g[i])]
SplAbs(p) == [p EXCEPT !.c = [r \in DOMAIN p.c |-> PAbsT(p.c[r])]]
SplAbsG(p) == [SplAbs(p) EXCEPT !.g = GAbs(p.g)]
FsAbsG(fs) == [i \in DOMAIN fs |-> SplAbsG(fs[i])]

RECURSIVE AbsAst(_)
AbsAst(op) ==
  CASE op.k \in {"Id", "X", "Dx", "Spl"} -> op
    [] op.k \in {"ScalL", "ScalR", "Div", "AddSR", "AddSL"} -> [op EXCEPT !.v = RAbs(op.v), !.o = AbsAst(op.o)]
    [] op.k = "SubSR" -> [k |-> "AddSR", t |-> op.t, v |-> RAbs(op.v), o |-> AbsAst(op.o)]
    [] op.k = "SubSL" -> [k |-> "AddSL", t |-> op.t, v |-> RAbs(op.v), o |-> AbsAst(op.o)]
    [] op.k = "Neg" -> [k |-> "ScalL", t |-> "T", v |-> ROne, o |-> AbsAst(op.o)]
    [] op.k = "Prod" -> [op EXCEPT !.l = AbsAst(op.l), !.r = AbsAst(op.r)]
    [] op.k = "Sum" -> [op EXCEPT !.l = AbsAst(op.l), !.r = AbsAst(op.r)]
    [] op.k = "Diff" -> [k |-> "Sum", l |-> AbsAst(op.l), r |-> AbsAst(op.r)]

\* magnitude of  op * a  (same shape as ApplyI(op, a, fs), on the true grid)
ApplyAbs(op, a, fs) == [ApplyI(AbsAst(op), SplAbsG(a), FsAbsG(fs)) EXCEPT !.g = a.g]
LinearAbs(op, a, fs) ==
  LET m == ApplyAbs(op, a, fs)
  IN RSumSeq([i \in 1..Len(m.c) |-> KernelLF(m.c[i], Half(a.g, a.s + i - 1))])
BilinearAbs(o1, o2, a, b, fs) ==
  LET ma == ApplyAbs(o1, a, fs)
      mb == ApplyAbs(o2, b, fs)
      X == InterI(SplSup(a), SplSup(b))
  IN RSumSeq([i \in 1..SupNInt(X) |->
        LET j == (i - 1) + X.s
        IN KernelBF(Piece(ma, j), Piece(mb, j), Half(a.g, j))])
EvalAbs(p, x) ==
  LET r == FindIntervalI(p, x)
  IN IF r = None THEN RZero
     ELSE PEvalPow(PAbsT(p.c[r + 1]), RAbs(RSub(x, Mid(p.g, p.s + r))))

\* the generator's recursion in abs mode
RecurAbs(k, g, q, i, si, sip1) ==
  LET xi == k[i + 1]
      xipkm1 == k[i + q + 1]
      xip1 == k[i + 2]
      xipk == k[i + q + 2]
      ret1 == IF RGt(xipkm1, xi)
              THEN ApplyI(AbsAst(OpLeft(RDiv(ROne, RSub(xipkm1, xi)), xi)), si, <<>>)
              ELSE EmptySpl(g, q)
  IN IF RGt(xipk, xip1)
     THEN AddI(ret1, ApplyI(AbsAst(OpRight(RDiv(ROne, RSub(xipk, xip1)), xipk)), sip1, <<>>))
     ELSE ret1
RECURSIVE GenLevelAbs(_, _, _, _)
GenLevelAbs(k, gt, ga, q) ==             \* gt: true grid (lookup), ga: abs grid (midpoints)
  IF q = 0 THEN [i \in 1..(Len(k) - 1) |-> [Zeroth(k, gt, i - 1) EXCEPT !.g = ga]]
  ELSE LET low == GenLevelAbs(k, gt, ga, q - 1)
       IN [i \in 1..(Len(k) - q - 1) |-> RecurAbs(k, ga, q, i - 1, low[i], low[i + 1])]
GenAbs(k, p) == LET g == Uniq(k)
                    r == GenLevelAbs(k, g, GAbs(g), p)
                IN [i \in DOMAIN r |-> [r[i] EXCEPT !.g = g]]

\* weighted integral in abs mode (C17)
WeightedAbs(w, a, b) ==
  LET term(j) == PIntSym(PMul(PMul(PAbsT(Piece(a, j)), PShift(PAbsT(w), RAbs(Mid(a.g, j)))), PAbsT(Piece(b, j))), Half(a.g, j))
  IN SumOverIvs(NIv(a.g), Common(a, b), term)

-----------------------------------------------------------------------------
\* domains (dyadic, well scaled)
Id == [k |-> "Id"]
Xn(n) == [k |-> "X", n |-> n]
Dn(n) == [k |-> "Dx", n |-> n]
SplLeaf == [k |-> "Spl", vo |-> 1, slot |-> 1]
S1(kind, t, v, o) == [k |-> kind, t |-> t, v |-> v, o |-> o]
B2(kind, l, r) == [k |-> kind, l |-> l, r |-> r]

FpExprs ==
  {Id, SplLeaf} \cup {Xn(n) : n \in 0..3} \cup {Dn(n) : n \in 0..3}
  \cup {S1("ScalL", "T", R(1, 2), Xn(1)), S1("Div", "T", RTwo, Dn(1)), S1("SubSR", "T", FromInt(3), Xn(1)),
        S1("SubSL", "T", FromInt(3), Xn(1)), S1("AddSR", "int", RTwo, Dn(1)), [k |-> "Neg", o |-> Xn(1)],
        B2("Prod", Xn(1), Dn(1)), B2("Prod", Dn(1), Xn(1)), B2("Sum", Dn(2), Xn(1)), B2("Diff", Xn(2), Dn(1)),
        B2("Prod", SplLeaf, Dn(1)), B2("Sum", S1("ScalL", "T", R(-1, 2), Dn(2)), SplLeaf),
        B2("Diff", B2("Prod", Dn(1), Xn(1)), B2("Prod", Xn(1), Dn(1))),
        B2("Prod", Xn(2), B2("Sum", Dn(2), Xn(1))),
        \* scalars of a built-in floating type that differs from the spline's data type (3.0f, 3.0)
        S1("Div", "flt", FromInt(3), B2("Sum", B2("Prod", Xn(1), Dn(1)), Xn(2))), S1("Div", "dbl", FromInt(3), Dn(1)),
        S1("ScalL", "flt", FromInt(3), Xn(1)), S1("ScalR", "dbl", R(1, 2), Dn(1)), S1("SubSR", "flt", R(1, 2), Xn(1)),
        S1("AddSL", "dbl", FromInt(3), Dn(1))}
\* nested scalings by float scalars whose product is not representable in float (25 bits);
\* operator application only, low orders (TLC's integers)
NestExprs == {S1("ScalL", "flt", R(4097, 4096), S1("ScalL", "flt", R(4097, 4096), Dn(1))),
              S1("ScalR", "flt", R(4097, 4096), S1("ScalL", "flt", R(4097, 4096), Xn(1))),
              S1("Div", "flt", R(4097, 4096), S1("ScalR", "flt", R(4095, 4096), Dn(1))),
              S1("ScalL", "dbl", R(4097, 4096), S1("ScalL", "flt", R(4097, 4096), Xn(1)))}
FpBFOps == {Id, Dn(1), Xn(1), B2("Sum", S1("ScalL", "T", R(-1, 2), Dn(2)), SplLeaf)}

\* both operators of one C++ type but in different states, evaluated on the very same spline object (bf(s, s))
FpSamePairs == {<<S1("ScalL", "T", FromInt(4), Dn(1)), S1("ScalL", "T", R(1, 4), Dn(1))>>,
                <<S1("ScalL", "T", R(1, 2), Xn(1)), S1("ScalL", "T", FromInt(3), Xn(1))>>,
                <<S1("AddSR", "T", ROne, Dn(1)), S1("AddSR", "T", FromInt(-2), Dn(1))>>,
                <<Dn(1), Dn(1)>>}

RECURSIVE HasSpl(_)
HasSpl(op) == CASE op.k = "Spl" -> TRUE
                [] op.k \in {"Id", "X", "Dx"} -> FALSE
                [] Bin(op) -> HasSpl(op.l) \/ HasSpl(op.r)
                [] OTHER -> HasSpl(op.o)

FpGrids == IF Thorough THEN {E4, N5, F5, E5, Z4} ELSE {E4, N5, F5, Z4}
\* coefficients: small integers and eighths
FrC(n, o, v) == [r \in 1..n |-> [k \in 1..(o + 1) |-> R(((5 * r + 3 * k + 2 * v) % 11) - 5, IF (r + k) % 2 = 0 THEN 1 ELSE 2)]]
FpSpl(S, o, v) == SplOn(S, o, IF SupNInt(S) = 0 THEN <<>> ELSE FrC(SupNInt(S), o, v))
\* a grid far from the origin relative to its spacing (still |x| <= 8, spacing >= 1/8): an
\* expansion about the wrong point or through the monomial basis about 0 loses
\* (xm/h)^k ~ 56^k units of accuracy here.  Operator application only (the forms' powers of
\* h = 1/16 do not fit TLC's integers).
G8 == <<R(7, 1), R(57, 8), R(29, 4), R(15, 2), R(8, 1)>>
FarExprs == {Xn(1), Xn(2), Xn(3), Dn(1), B2("Prod", Xn(1), Dn(1)), B2("Sum", Dn(2), Xn(1)), S1("SubSR", "T", FromInt(3), Xn(1))}
NestCases == {[op |-> "FpApply", ast |-> e, a |-> a, fs |-> <<>>,
               E |-> [app |-> ApplyI(e, a, <<>>)], S |-> [app |-> ApplyAbs(e, a, <<>>)]] :
                e \in NestExprs, a \in {SplOn(S, o, IF SupNInt(S) = 0 THEN <<>> ELSE [r \in 1..SupNInt(S) |-> [k \in 1..(o + 1) |-> FromInt(2 * r + k - 3)]]) :
                                          S \in {SupWhole(E4), Sup(E4, 1, 3)}, o \in 1..2}}
FarCases == {[op |-> "FpApply", ast |-> e, a |-> a, fs |-> <<>>,
              E |-> [app |-> ApplyI(e, a, <<>>)], S |-> [app |-> ApplyAbs(e, a, <<>>)]] :
               e \in FarExprs, a \in {FpSpl(S, o, 0) : S \in {SupWhole(G8), Sup(G8, 1, 4)}, o \in 0..6}}
Ops3 == 0..3
SplsOn(g) == {FpSpl(S, o, 0) : S \in SupportsOn(g), o \in (IF g = F5 THEN 0..1 ELSE Ops3)}
BigSplsOn(g) == {FpSpl(S, o, v) : S \in {SupWhole(g), Sup(g, 1, Len(g)), Sup(g, 0, 2)}, o \in (IF g = F5 THEN 0..1 ELSE Ops3), v \in {0, 1}}
Factor(g) == FpSpl(Sup(g, 1, Len(g)), 1, 2)

KnotSets == {Q(<<0, 2, 4, 6>>), Q(<<-7, -1, 1, 4>>), <<R(0, 1), R(1, 2), R(1, 1), R(3, 1)>>}
RECURSIVE ND(_, _, _)
ND(L, lo, n) == IF L = 0 THEN {<<>>} ELSE UNION {{<<v>> \o s : s \in ND(L - 1, v, n)} : v \in lo..n}
FpKnots == {k \in UNION {UNION {{[i \in 1..L |-> V[s[i]]] : s \in ND(L, 1, Len(V))} : L \in 3..(IF Thorough THEN 7 ELSE 6)} : V \in KnotSets} :
              KnotsValid(k)}
MaxP == IF Thorough THEN 4 ELSE 3

Weights == {<<ROne>>, <<R(1, 2), FromInt(-1)>>, <<RZero, ROne, R(1, 4)>>, <<ROne, RZero, RZero, R(-1, 8)>>}
\* degrees 4..6 (every binomial row the weight operator expands), on low orders only: 32-bit integers
HighWeights == {<<RZero, RZero, RZero, RZero, R(1, 8)>>, <<RZero, ROne, RZero, RZero, RZero, R(-1, 16)>>,
                <<R(1, 2), RZero, RZero, RZero, RZero, RZero, R(1, 16)>>}
\* ... and on the highest order pair, so that total degrees 10 .. 12 occur and the rules with 6 and 7 points are needed
HighWeights33 == {<<RZero, RZero, RZero, RZero, ROne>>, <<RZero, RZero, RZero, RZero, RZero, ROne>>}
WeightsFor(a, b) == Weights \cup (IF a.o + b.o <= 2 THEN HighWeights ELSE IF a.o = 3 /\ b.o = 3 /\ a.g = E4 THEN HighWeights33 ELSE {})

J(x) == x   \* (documentation: values below are serialised with ToJson)

\* sexp: the knots are scaled by 2^-sexp before the call (an exact operation in
\* binary floating point) and the coefficient of u^k is scaled back by
\* 2^(-sexp*k): B-splines only depend on knot ratios, so E and S stay the same.
\* This reaches knot spacings far below machine epsilon ("any positive spacing").
GenCases(k) ==
  {[op |-> "FpGen", knots |-> k, p |-> p, sexp |-> sx, E |-> GenI(k, p), S |-> GenAbs(k, p)] :
     p \in {q \in 0..MaxP : Len(k) >= q + 2}, sx \in {0, 60}}

IntGrid(g) == g \in {E4, E5}
SplCases(a) ==
  LET g == a.g
      xs == SetToSeq(Probes(g))
  IN {[op |-> "FpEval", a |-> a, xs |-> xs, E |-> [i \in DOMAIN xs |-> EvalI(a, xs[i])], S |-> [i \in DOMAIN xs |-> EvalAbs(a, xs[i])]]}
     \cup {[op |-> "FpBin", a |-> a, b |-> b,
            E |-> [add |-> AddI(a, b), sub |-> SubI(a, b), mul |-> MulI(a, b)],
            S |-> [add |-> AddI(SplAbs(a), SplAbs(b)), sub |-> AddI(SplAbs(a), SplAbs(b)), mul |-> MulI(SplAbs(a), SplAbs(b))]] :
             b \in BigSplsOn(g)}
     \cup {[op |-> "FpApply", ast |-> e, a |-> a, fs |-> fs,
            E |-> [app |-> ApplyI(e, a, fs), lf |-> LinearI(e, a, fs)],
            S |-> [app |-> ApplyAbs(e, a, fs), lf |-> LinearAbs(e, a, fs)]] :
             e \in FpExprs \cup (IF a.o <= 1 /\ g \in {E4, Z4} THEN {Xn(4), Xn(6)} ELSE {}),   \* every binomial row up to 6
             fs \in {IF TRUE THEN <<Factor(g)>> ELSE <<>>}}
     \cup (IF a.o <= 2 /\ IntGrid(g) THEN
           {[op |-> "FpBF", e1 |-> e1, e2 |-> e2, a |-> a, b |-> b, fs |-> <<Factor(g)>>,
             E |-> BilinearI(e1, e2, a, b, <<Factor(g)>>), S |-> BilinearAbs(e1, e2, a, b, <<Factor(g)>>)] :
              e1 \in FpBFOps, e2 \in FpBFOps, b \in {x \in BigSplsOn(g) : x.o <= 2}}
           \cup {[op |-> "FpBF", e1 |-> pr[1], e2 |-> pr[2], a |-> a, b |-> a, sameobj |-> 1, fs |-> <<Factor(g)>>,
                   E |-> BilinearI(pr[1], pr[2], a, a, <<Factor(g)>>), S |-> BilinearAbs(pr[1], pr[2], a, a, <<Factor(g)>>)] :
                    pr \in FpSamePairs}
           ELSE {})
     \cup (IF ~IntGrid(g) THEN {} ELSE
           UNION {{[op |-> "FpInt", n |-> n, w |-> w, a |-> a, b |-> b,
                    exact |-> IF 2 * n - 1 >= a.o + b.o + (Len(w) - 1) THEN 1 ELSE 0,
                    E |-> WeightedVal(w, a, b), S |-> WeightedAbs(w, a, b)] :
                     n \in 1..7, w \in WeightsFor(a, b)} :
                  b \in {x \in BigSplsOn(g) : x.c # <<>> /\ x.c = FrC(Len(x.c), x.o, 0)}})

\* grid construction from special floating-point values (C11): every sequence of
\* length <= 4 over {0, 1, 2, NaN} (+/-Inf and -0.0 in the thorough tier)
XN(n) == <<0, n, 1>>
Specials == {XN(0), XN(1), XN(2), <<1, 0, 1>>} \cup (IF Thorough THEN {<<2, 0, 1>>, <<3, 0, 1>>, <<4, 0, 1>>} ELSE {})
XSeqs == UNION {[1..L -> Specials] : L \in 0..4}
GridSpecialCases == {[op |-> "FpGridNew", pts |-> s] : s \in XSeqs}

\* numerical integration across logically different grids must be refused (C08)
IntForeignCases(a) ==
  IF a.g = E4 /\ a.o = 1 /\ a.s = 0
  THEN {[op |-> "FpIntX", n |-> 2, w |-> <<ROne>>, a |-> a, b |-> FpSpl(S, 1, 0)] :
          S \in UNION {{SupWhole(v), Sup(v, 0, 2), SupEmptyOn(v)} : v \in GridVariants(E4)}}
  ELSE {}

\* size sweep inside the well-scaled region: n intervals of width 1/8 around the origin (|x| <= 4.2), every n of
\* Domains!SweepSizes, so that whatever depends on the number of intervals (blocked or pairwise summation,
\* a search that changes strategy) is crossed in the floating types too
FpSweepGrid(n) == [i \in 1..(n + 1) |-> R(i - 1 - (n \div 2), 8)]
FpSweepCases(n) ==
  LET g == FpSweepGrid(n)
      a == FpSpl(SupWhole(g), 2, 0)
      a1 == FpSpl(SupWhole(g), 1, 1)
      b == FpSpl(Sup(g, (n + 1) \div 2, n + 1), 1, 0)
      xs == SetToSeq(SweepProbes(g))
      fs == <<Factor(g)>>
  IN {[op |-> "FpEval", a |-> a, xs |-> xs, E |-> [i \in DOMAIN xs |-> EvalI(a, xs[i])], S |-> [i \in DOMAIN xs |-> EvalAbs(a, xs[i])]]}
     \cup {[op |-> "FpBin", a |-> a, b |-> y,
            E |-> [add |-> AddI(a, y), sub |-> SubI(a, y), mul |-> MulI(a, y)],
            S |-> [add |-> AddI(SplAbs(a), SplAbs(y)), sub |-> AddI(SplAbs(a), SplAbs(y)), mul |-> MulI(SplAbs(a), SplAbs(y))]] : y \in {a1, b}}
     \cup {[op |-> "FpApply", ast |-> e, a |-> y, fs |-> fs,
            E |-> [app |-> ApplyI(e, y, fs), lf |-> LinearI(e, y, fs)],
            S |-> [app |-> ApplyAbs(e, y, fs), lf |-> LinearAbs(e, y, fs)]] : e \in {Id, Dn(1), Xn(1)}, y \in {a, b}}
     \cup {[op |-> "FpBF", e1 |-> pr[1], e2 |-> pr[2], a |-> a, b |-> y, fs |-> fs,
             E |-> BilinearI(pr[1], pr[2], a, y, fs), S |-> BilinearAbs(pr[1], pr[2], a, y, fs)] :
              pr \in {<<Id, Id>>, <<Dn(1), Dn(1)>>, <<Xn(1), Id>>}, y \in {a1, b}}
     \cup {[op |-> "FpInt", n |-> 3, w |-> <<ROne>>, a |-> a1, b |-> y, exact |-> 1,
             E |-> WeightedVal(<<ROne>>, a1, y), S |-> WeightedAbs(<<ROne>>, a1, y)] : y \in {a1, b}}

Init == \/ st = [ph |-> 0, kind |-> "x"]
        \/ \E n \in (1..40) \cup {63, 64, 65, 66} : st = [ph |-> 0, kind |-> "sw", n |-> n]    \* (both tiers: 32-bit integers)
        \/ st = [ph |-> 0, kind |-> "far"]
        \/ \E k \in FpKnots : st = [ph |-> 0, kind |-> "k", k |-> k]
        \/ \E g \in FpGrids : \E a \in SplsOn(g) : st = [ph |-> 0, kind |-> "a", a |-> a]
Next == /\ st.ph = 0
        /\ \E c \in (IF st.kind = "sw" THEN FpSweepCases(st.n) ELSE IF st.kind = "k" THEN GenCases(st.k) ELSE IF st.kind = "x" THEN GridSpecialCases ELSE IF st.kind = "far" THEN FarCases \cup NestCases ELSE SplCases(st.a) \cup IntForeignCases(st.a)) :
              st' = [ph |-> 1, c |-> c]
Spec == Init /\ [][Next]_st
\* the (long) records of one sweep size go to a file of their own: the successors of one state are written by one
\* worker, and lines beyond 8 kB written by several workers to one file can interleave
Emit == (st'.ph = 1) => CSVWrite("%1$s", <<ToJson(st'.c)>>, IF st.kind = "sw" THEN OutFile \o "." \o ToString(st.n) ELSE OutFile)

-----------------------------------------------------------------------------
\* S really is a magnitude: it dominates |E| coefficient by coefficient
DomT(e, s) == Len(e) = Len(s) /\ \A k \in DOMAIN e : RLe(RAbs(e[k]), s[k])
DomSpl(e, s) == e.s = s.s /\ e.e = s.e /\ Len(e.c) = Len(s.c) /\ \A r \in DOMAIN e.c : DomT(e.c[r], s.c[r])
MagnitudeOK == st.ph = 1 =>
  LET c == st.c IN
  CASE c.op = "FpGen" -> \A i \in DOMAIN c.E : DomSpl(c.E[i], c.S[i])
    [] c.op = "FpEval" -> \A i \in DOMAIN c.E : RLe(RAbs(c.E[i]), c.S[i])
    [] c.op = "FpBin" -> DomSpl(c.E.add, c.S.add) /\ DomSpl(c.E.sub, c.S.sub) /\ DomSpl(c.E.mul, c.S.mul)
    [] c.op = "FpApply" -> DomSpl(c.E.app, c.S.app) /\ ("lf" \in DOMAIN c.E => RLe(RAbs(c.E.lf), c.S.lf))
    [] c.op = "FpBF" -> RLe(RAbs(c.E), c.S)
    [] c.op = "FpInt" -> RLe(RAbs(c.E), c.S)
    [] c.op = "FpIntX" -> c.a.g # c.b.g
    [] c.op = "FpGridNew" -> (XGridAcceptsI(c.pts) <=> XGridValid(c.pts))     \* the scan accepts exactly the valid grids
=============================================================================
