SPECIFICATION Spec
CONSTANTS
  WBITS = 5
  Bug_AtWraps = FALSE
  Bug_IntervalWraps = FALSE
  Bug_GridScanGE = FALSE
  Bug_SplineOpLookupByPoint = FALSE
  Bug_IntReciprocal = FALSE
  TIER = "quick"
  NS = 7
  DEPTH = 12
  MODE = "sim"
CONSTRAINT Bounded
INVARIANTS Emit ModelValid ModelStepOK
CHECK_DEADLOCK FALSE
