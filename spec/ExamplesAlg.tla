----------------------------- MODULE ExamplesAlg -----------------------------
(***************************************************************************)
(* C20 (b): the steady-state diffusion ALGORITHM of examples/diffusion.cpp *)
(* run inside the specification at reduced order, with the spec's own      *)
(* exact spline algebra and an exact linear solve:                         *)
(*   knots   = P copies of front, every grid point, P copies of back       *)
(*   basis   = GenI(knots, P); first = start * basis[1];                   *)
(*             last = end * basis[N]; inner = basis[2..N-1]                *)
(*   form    = BilinearForm{Dx<1>, (-1/2) * (SplineOperator{D} * Dx<1>)}   *)
(*   b_i     = -(form(inner_i, first) + form(inner_i, last))               *)
(*   M_ij    = form(inner_i, inner_j);  solve M x = b                      *)
(*   result  = linearCombination(x, inner) + first + last                  *)
(* TLC checks on every enumerated input that the result attains the        *)
(* prescribed values at both ends, is unchanged when D is scaled by a      *)
(* positive constant, and is the straight line for a constant D - i.e. the *)
(* algorithm, not just one run of its double/Eigen instance, meets the     *)
(* contract C20 states.                                                    *)
(***************************************************************************)
EXTENDS Generator, Domains, LinSolve, TLC

CONSTANTS P,                    \* reduced spline order (the example uses 10)
          Bug_DropLastTerm      \* negative control: the right-hand side forgets the end boundary function

\* ------------------------------------------------------------ the algorithm
Rep(x, n) == [i \in 1..n |-> x]
KnotsFor(g) == Rep(g[1], P) \o g \o Rep(g[Len(g)], P)

DSpline(g, d) == Spl(g, 0, Len(g), 0, [i \in 1..(Len(g) - 1) |-> <<d[i]>>])

Dx1 == [k |-> "Dx", n |-> 1]
FormL == Dx1
FormR == [k |-> "ScalL", t |-> "T", v |-> R(-1, 2), o |-> [k |-> "Prod", l |-> [k |-> "Spl", vo |-> 0, slot |-> 1], r |-> Dx1]]
BF(a, b, D) == BilinearI(FormL, FormR, a, b, <<D>>)

RECURSIVE LinAcc(_, _, _)
LinAcc(xs, ss, i) == IF i = 0 THEN <<>> ELSE Append(LinAcc(xs, ss, i - 1), ScaleI(ss[i], xs[i]))
RECURSIVE SumSpl(_)
SumSpl(ss) == IF Len(ss) = 1 THEN ss[1] ELSE AddI(SumSpl(SubSeq(ss, 1, Len(ss) - 1)), ss[Len(ss)])

Diffusion(g, d, start, end) ==
  LET k == KnotsFor(g)
      basis == GenI(k, P)
      N == Len(basis)
      first == ScaleI(basis[1], start)
      last == ScaleI(basis[N], end)
      inner == SubSeq(basis, 2, N - 1)
      D == DSpline(g, d)
      m == Len(inner)
      b == [i \in 1..m |-> RNeg(RAdd(BF(inner[i], first, D), IF Bug_DropLastTerm THEN RZero ELSE BF(inner[i], last, D)))]
      M == [i \in 1..m |-> [j \in 1..m |-> BF(inner[i], inner[j], D)]]
      x == Solve(M, b)
  IN IF m > 0 /\ x = <<>> THEN [ok |-> FALSE]
     ELSE [ok |-> TRUE, N |-> N,
           c |-> IF m = 0 THEN AddI(first, last)
                 ELSE AddI(AddI(LinCombI(x, inner), first), last)]

\* ------------------------------------------------------------ model checking
VARIABLE st
DG == IF P >= 3 THEN {Q(<<0, 2>>), Q(<<0, 2, 4>>)}            \* larger orders: TLC's 32-bit integers bound the elimination
      ELSE {Q(<<0, 2>>), Q(<<0, 2, 4>>), Q(<<-2, 0, 4>>), Q(<<0, 2, 4, 6>>)}
DPat(m) == {[i \in 1..m |-> ROne], [i \in 1..m |-> FromInt(3)], [i \in 1..m |-> IF i % 2 = 1 THEN R(1, 2) ELSE RTwo],
            [i \in 1..m |-> IF i = 1 THEN FromInt(3) ELSE ROne]}
Bnd == {<<RZero, ROne>>, <<RTwo, FromInt(-1)>>, <<ROne, ROne>>}
Init == \E g \in DG : \E d \in DPat(Len(g) - 1) : \E b \in Bnd : st = [g |-> g, d |-> d, a |-> b[1], b |-> b[2]]
Next == UNCHANGED st
Spec == Init /\ [][Next]_st

Line(g, a, b, x) == RAdd(a, RDiv(RMul(RSub(b, a), RSub(x, g[1])), RSub(g[Len(g)], g[1])))

ContractOK ==
  LET g == st.g
      r == Diffusion(g, st.d, st.a, st.b)
      r2 == Diffusion(g, [i \in DOMAIN st.d |-> RMul(R(5, 2), st.d[i])], st.a, st.b)
      constD == \A i \in DOMAIN st.d : st.d[i] = st.d[1]
  IN /\ r.ok /\ r2.ok
     /\ r.N = P + Len(g) - 1                                   \* basis size
     /\ SplValid(r.c) /\ SplSup(r.c) = SupWhole(g)
     \* the prescribed values are attained at both ends
     /\ EvalI(r.c, g[1]) = st.a /\ EvalI(r.c, g[Len(g)]) = st.b
     \* unchanged when the coefficient is scaled by a positive constant
     /\ SameFn(r.c, r2.c)
     \* the straight line for a constant coefficient
     /\ (constD => \A x \in Probes(g) : RLe(g[1], x) /\ RLe(x, g[Len(g)]) => EvalI(r.c, x) = Line(g, st.a, st.b, x))
=============================================================================
