--------------------------- MODULE Trace_Stateless ---------------------------
(***************************************************************************)
(* Validation of stateless events recorded from the real library           *)
(* (Validate step, DESIGN.md section 2.2).                                 *)
(*                                                                         *)
(* Every line of the trace is one public call with self-contained          *)
(* projected arguments and the projected result.  The trace is a set of    *)
(* observations: one initial state per line (idx), and the invariant       *)
(* Explained accepts a line iff the Level-A contract of its action holds   *)
(* between what the code was given and what it returned.  TLC is run with  *)
(* -continue; every rejected line is reported with its idx.                *)
(***************************************************************************)
EXTENDS ContractsStateless, Json, IOUtils

Events == ndJsonDeserialize(IOEnv.TRACE)

VARIABLE idx
Init == idx \in 1..Len(Events)
Next == FALSE /\ idx' = idx
Spec == Init /\ [][Next]_idx

Explained == EventOK(Events[idx])
=============================================================================
