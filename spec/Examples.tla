------------------------------ MODULE Examples ------------------------------
(***************************************************************************)
(* The shipped example solvers (examples/*.cpp), C20.                      *)
(*                                                                         *)
(* (a) The skeleton of solveDiffusionSteadyState as a sequence of          *)
(*     std::vector operations with their preconditions:                    *)
(*        basis = generated B-splines (n of them)                          *)
(*        first = move(basis.front());  last = move(basis.back())          *)
(*        erase the first element; remove the last element                 *)
(*        assemble with every remaining element; recombine                 *)
(*     std::vector::erase(pos) requires a dereferenceable iterator: pos    *)
(*     in [begin, end).  The pinned tree called erase(end()) - undefined   *)
(*     behaviour (Bug_EraseEnd); the repaired tree calls pop_back().       *)
(*     TLC checks that no precondition is violated and that exactly the    *)
(*     two moved-from elements are gone before assembly.                   *)
(* (b) Inputs for the conformance runs and the contracts of the entry      *)
(*     points (evaluated numerically by the harness with a tolerance,      *)
(*     judged here on the recorded verdicts).                              *)
(***************************************************************************)
EXTENDS Integers, Sequences, FiniteSets, TLC

CONSTANTS Bug_EraseEnd, MaxBasis

VARIABLES pc, basis, first, last, ub, n
vars == <<pc, basis, first, last, ub, n>>

\* an element is "B" (a basis function) or "moved" (valid but interval-free)
Init == /\ n \in 2..MaxBasis
        /\ basis = [i \in 1..n |-> "B"]
        /\ first = "none" /\ last = "none"
        /\ ub = {}
        /\ pc = "moveFirst"

MoveFirst == /\ pc = "moveFirst"
             /\ ub' = IF Len(basis) = 0 THEN ub \cup {"front() of an empty vector"} ELSE ub
             /\ first' = "B" /\ basis' = [basis EXCEPT ![1] = "moved"]
             /\ pc' = "moveLast" /\ UNCHANGED <<last, n>>
MoveLast == /\ pc = "moveLast"
            /\ ub' = IF Len(basis) = 0 THEN ub \cup {"back() of an empty vector"} ELSE ub
            /\ last' = basis[Len(basis)] /\ basis' = [basis EXCEPT ![Len(basis)] = "moved"]
            /\ pc' = "eraseFirst" /\ UNCHANGED <<first, n>>
\* erase(begin())
EraseFirst == /\ pc = "eraseFirst"
              /\ ub' = IF Len(basis) = 0 THEN ub \cup {"erase(begin()) on an empty vector"} ELSE ub
              /\ basis' = Tail(basis)
              /\ pc' = "eraseLast" /\ UNCHANGED <<first, last, n>>
\* erase(end()) [pinned] / pop_back() [repaired]
EraseLast == /\ pc = "eraseLast"
             /\ IF Bug_EraseEnd
                THEN \* the iterator end() is not dereferenceable: the call has no defined meaning
                     /\ ub' = ub \cup {"erase() of the past-the-end iterator"}
                     /\ basis' = basis
                ELSE /\ ub' = IF Len(basis) = 0 THEN ub \cup {"pop_back() on an empty vector"} ELSE ub
                     /\ basis' = SubSeq(basis, 1, Len(basis) - 1)
             /\ pc' = "assemble" /\ UNCHANGED <<first, last, n>>
Assemble == /\ pc = "assemble" /\ pc' = "done" /\ UNCHANGED <<basis, first, last, ub, n>>

Next == MoveFirst \/ MoveLast \/ EraseFirst \/ EraseLast \/ Assemble
Spec == Init /\ [][Next]_vars /\ WF_vars(Next)

NoUB == ub = {}
\* at assembly time: exactly the interior basis functions, none of them moved-from,
\* and the two boundary functions were taken from the two ends
AssemblyOK == pc \in {"assemble", "done"} =>
  /\ Len(basis) = n - 2 /\ \A i \in DOMAIN basis : basis[i] = "B"
  /\ first = "B" /\ last \in {"B", "moved"}
\* with n = 1 first and last would be the same element (moved twice): the
\* examples always have n >= order + 1 >= 2; for n >= 2 both are basis functions
BoundaryOK == pc \in {"assemble", "done"} /\ n >= 2 => last = "B"
Terminates == <>(pc = "done")
=============================================================================
