-------------------------------- MODULE MC_Spl --------------------------------
(***************************************************************************)
(* Model checking + case generation for the spline family: construction,   *)
(* evaluation, arithmetic, predicates, linearCombination, cross-grid calls *)
(* (C02, C03, C08, C10, C11, C14, C15).                                    *)
(* Same shape as MC_Sup: st = [ph |-> 0, a |-> spline] --> [ph |-> 1, c].  *)
(***************************************************************************)
EXTENDS Domains, Json, CSV, IOUtils, SequencesExt

VARIABLE st
OutFile == IF "GEN_OUT" \in DOMAIN IOEnv THEN IOEnv.GEN_OUT ELSE "/dev/null"

\* first operands: rich coefficient variants; second operands: two variants
OrdersA == IF Thorough THEN 0..3 ELSE 0..2
OrdersB == IF Thorough THEN 0..3 ELSE 0..2
GridsA == IF Thorough THEN {E4, N5, F5, N6, Z4, L16} ELSE {E4, N5, Z4, L16}
RichOn(g) == Len(g) <= (IF Thorough THEN 5 ELSE 4)

\* operands of order 4 and 5 (results up to order 10): a few windows, generic / jump coefficients and the unit
\* vectors of the two highest powers
HighOrders == {4, 5}
HighGrids == {E4, N5}
HighSplinesOn(g, o) ==
  UNION {{SplOn(S, o, c) : c \in CoefVariants(SupNInt(S), o, FALSE)
                              \cup (IF SupNInt(S) = 0 THEN {} ELSE {UnitC(SupNInt(S), o, r, k) : r \in {1, SupNInt(S)}, k \in {o, o + 1}})} :
           S \in {SupWhole(g), Sup(g, 1, 3), Sup(g, 0, Len(g) - 1), Sup(g, 1, Len(g)), SupEmptyOn(g), Sup(g, 2, 3)}}
HighOperands == UNION {HighSplinesOn(g, o) : g \in HighGrids, o \in HighOrders}

FirstOperands == UNION {SplinesOn(g, OrdersA, RichOn(g)) : g \in GridsA} \cup HighOperands
Partners(g) == SplinesOn(g, OrdersB, FALSE)
HighPartners(g, o) == {p \in HighSplinesOn(g, o) : p.c = <<>> \/ p.c = Generic(Len(p.c), o, 0)}
ForeignPartners(g) == UNION {SplinesOn(v, {0, 1}, FALSE) : v \in GridVariants(g)}

\* size sweep (Domains!SweepGrid): whole-grid splines and one window not starting at 0, orders 0 and 2
SweepVariants(n, o) == {JumpC(n, o), ZeroC(n, o), UnitC(n, o, n, o + 1), UnitC(n, o, (n + 1) \div 2, 1)}
SweepOperands ==
  UNION {UNION {{SplOn(SupWhole(SweepGrid(n)), o, c) : c \in SweepVariants(n, o)}
                \cup (IF n >= 2 THEN {SplOn(Sup(SweepGrid(n), 1, n + 1), o, JumpC(n - 1, o))} ELSE {}) : o \in {0, 2}} : n \in SweepSizes}
SweepSeq == SetToSeq(SweepOperands)
SweepPartners(a) ==
  LET g == a.g
      n == Len(g) - 1
      o == a.o
      h == (n + 1) \div 2
  IN {a, SplOn(SupWhole(g), o, ZeroC(n, o)), SplOn(SupWhole(g), o, UnitC(n, o, n, o + 1)), SplOn(SupWhole(g), 1, Generic(n, 1, 0)),
      SplOn(Sup(g, h, n + 1), o, Generic(n - h, o, 1)), SplOn(Sup(g, 0, h + 1), 1, Generic(h, 1, 0)),
      SplOn(Sup(g, n, n + 1), o, <<>>), SplOn(SupEmptyOn(g), o, <<>>)}
SweepCasesFor(a) ==
  {[op |-> "SplEval", a |-> a, xs |-> SetToSeq(SweepProbes(a.g))]}
  \cup {[op |-> "SplUn", a |-> a, k |-> k] : k \in {RTwo, RZero}}
  \cup {[op |-> "SplBin", a |-> a, b |-> b, share |-> sh] : b \in SweepPartners(a), sh \in {0, 1}}
  \cup {[op |-> "SplBin", a |-> b, b |-> a, share |-> 1] : b \in SweepPartners(a)}

SeqSet(S) == SetToSeq(S)        \* any fixed order
ProbeSeq(g) == SetToSeq(Probes(g))

\* linearCombination collections built around the first operand
LinCases(a) ==
  LET g == a.g
      o == a.o
      P == {p \in Partners(g) : p.o = o /\ (p.c = <<>> \/ p.c = Generic(Len(p.c), o, 0))}
      F == {p \in ForeignPartners(g) : p.o = o /\ p.s = 0 /\ p.e = Len(p.g) /\ p.c = Generic(Len(p.c), p.o, 0)}
      two == {<<a, p>> : p \in P} \cup {<<p, a>> : p \in P}
      three == {<<a, p, q>> : p \in {x \in P : x.s = 0}, q \in {x \in P : x.e = Len(g) \/ x.e = 0}}
      cvals == <<RTwo, R(-3, 4), RZero, ROne>>
      \* a zero coefficient first, in the middle and last
      cvs == {cvals, <<RZero, RTwo, R(-3, 4), ROne>>, <<RTwo, RZero, ROne, ROne>>}
  IN {[op |-> "SplLin", o |-> o, share |-> sh, cs |-> SubSeq(cv, 1, Len(ss)), ss |-> ss] : ss \in {<<a>>} \cup two \cup three, sh \in {0, 1}, cv \in cvs}
     \* count mismatches: 0..3 coefficients for 0..2 splines (C11)
     \cup {[op |-> "SplLin", o |-> o, share |-> 1, cs |-> SubSeq(cvals, 1, nc), ss |-> SubSeq(<<a, a, a>>, 1, ns)] : nc \in 0..3, ns \in 0..2}
     \* the odd grid first / middle / last (C08)
     \cup (IF o <= 1 THEN {[op |-> "SplLin", o |-> o, share |-> 0, cs |-> SubSeq(cvals, 1, 3), ss |-> ss] :
              ss \in UNION {{<<f, a, a>>, <<a, f, a>>, <<a, a, f>>} : f \in F}} ELSE {})

NewCases(a) ==
  LET g == a.g
      o == a.o
      n == Len(g)
  IN IF a.s = 0 /\ a.e = n /\ a.c = Generic(n - 1, o, 0)
     THEN {[op |-> "SplNew", g |-> g, s |-> w[1], e |-> w[2], o |-> o, c |-> Generic(k, o, 1)] :
             w \in WindowsOf(g), k \in 0..(n + 1)}
     ELSE {}

CasesFor(a) ==
  LET g == a.g IN
  {[op |-> "SplEval", a |-> a, xs |-> ProbeSeq(g)]}
  \cup {[op |-> "SplUn", a |-> a, k |-> k] : k \in Scalars}
  \cup {[op |-> "SplBin", a |-> a, b |-> b, share |-> 1] : b \in Partners(g)}
  \* a high-order operand on either side of a low-order one, and with its own order
  \cup (IF a.o >= 4 THEN {[op |-> "SplBin", a |-> b, b |-> a, share |-> 1] : b \in Partners(g)}
                          \cup {[op |-> "SplBin", a |-> a, b |-> b, share |-> sh] : b \in HighPartners(g, a.o), sh \in {0, 1}}
        ELSE {})
  \cup {[op |-> "SplBin", a |-> a, b |-> b, share |-> 0] : b \in {p \in Partners(g) : p.o = a.o /\ (p.s = a.s \/ p.e = a.e)}}
  \cup (IF a.c = <<>> \/ a.c = Generic(Len(a.c), a.o, 0)
        THEN {[op |-> "SplBin", a |-> a, b |-> b, share |-> 0] : b \in ForeignPartners(g)} ELSE {})
  \cup (IF a.c = <<>> \/ a.c = Generic(Len(a.c), a.o, 0) \/ a.c = HolesC(Len(a.c), a.o) THEN LinCases(a) ELSE {})
  \cup NewCases(a)

Init == \/ \E a \in FirstOperands : st = [ph |-> 0, a |-> a, sw |-> 0]
        \/ \E i \in DOMAIN SweepSeq : st = [ph |-> 0, a |-> SweepSeq[i], sw |-> i]
Next == /\ st.ph = 0
        /\ \E c \in (IF st.sw > 0 THEN SweepCasesFor(st.a) ELSE CasesFor(st.a)) : st' = [ph |-> 1, c |-> c]
Spec == Init /\ [][Next]_st
\* the (long) records of one sweep operand go to a file of their own: the successors of one state are written by
\* one worker, and lines beyond 8 kB written by several workers to one file can interleave
Emit == (st'.ph = 1) => CSVWrite("%1$s", <<ToJson(st'.c)>>, IF st.sw > 0 THEN OutFile \o "." \o ToString(st.sw) ELSE OutFile)

-----------------------------------------------------------------------------
\* Level I => Level A on every explored case

EvalOK == st.ph = 1 /\ st.c.op = "SplEval" =>
  \A i \in DOMAIN st.c.xs : EvalPost(st.c.a, st.c.xs[i], EvalI(st.c.a, st.c.xs[i]))

UnOK == st.ph = 1 /\ st.c.op = "SplUn" =>
  LET a == st.c.a
      k == st.c.k
  IN /\ ScalePost(a, k, ScaleI(a, k))
     /\ ScalePost(a, FromInt(-1), NegI(a))
     /\ (~RIsZero(k) => ScalePost(a, RDiv(ROne, k), DivI(a, k)))
     /\ IsZeroPost(a, IsZeroI(a))
     /\ SameFnPost(a, AssignLowerI(a, a.o + 1), a.o + 1)
     /\ SameFnPost(a, AssignLowerI(a, a.o + 3), a.o + 3)
     /\ SplValid(a)

BinOK == st.ph = 1 /\ st.c.op = "SplBin" /\ st.c.a.g = st.c.b.g =>
  LET a == st.c.a
      b == st.c.b
  IN /\ AddPost(a, b, AddI(a, b)) /\ SubPost(a, b, SubI(a, b)) /\ MulPost(a, b, MulI(a, b))
     /\ OverlapPost(a, b, OverlapI(a, b))
     /\ (a.o = b.o => SplEqPost(a, b, SplEqI(a, b)))
     \* algebra on the denoted functions
     /\ SameFn(AddI(a, b), AddI(b, a)) /\ SameFn(MulI(a, b), MulI(b, a))
     /\ SameFn(SubI(AddI(a, b), b), AssignLowerI(a, Max(a.o, b.o)))
     /\ (OverlapI(a, b) <=> SupHasIntervals(SplSup(MulI(a, b))))
     \* every coefficient lookup of the three-way split / convolution is in range (C09)
     /\ \A j \in Ivs(a.g) : LookupInBounds(a, j) /\ LookupInBounds(b, j)

LinOK == st.ph = 1 /\ st.c.op = "SplLin" =>
  LET cs == st.c.cs
      ss == st.c.ss
  IN (Len(cs) = Len(ss) /\ Len(cs) >= 1 /\ \A i \in DOMAIN ss : ss[i].g = ss[1].g)
       => LinCombPost(cs, ss, LinCombI(cs, ss))

NewOK == st.ph = 1 /\ st.c.op = "SplNew" =>
  LET c == st.c
      p == Spl(c.g, c.s, c.e, c.o, c.c)
      S == SplSup(p)
      \* Spline::checkValidity
      acc == (~SupHasIntervals(S) /\ Len(c.c) = 0) \/ (SupSize(S) >= 2 /\ Len(c.c) = SupNInt(S))
  IN acc <=> SplValid(p)
=============================================================================
