-------------------------------- MODULE MC_Sup --------------------------------
(***************************************************************************)
(* Model checking + case generation for the grid/support family           *)
(* (C13, C11 for supports and grids, index half of C09).                   *)
(*                                                                         *)
(* State: st = [ph |-> 0, a |-> support]  (initial states: every support   *)
(* of every grid of the domain)  --Next-->  [ph |-> 1, c |-> case].        *)
(* Invariants check Level I => Level A and the lattice laws on the         *)
(* specification; the action constraint Emit writes every explored case    *)
(* as one JSON line for the conformance harness (Gen step).                *)
(***************************************************************************)
EXTENDS Domains, Json, CSV, IOUtils

VARIABLE st

OutFile == IF "GEN_OUT" \in DOMAIN IOEnv THEN IOEnv.GEN_OUT ELSE "/dev/null"

MaxN == IF Thorough THEN 6 ELSE 5
Grids == {EvenGrid(n) : n \in 2..MaxN} \cup {N5} \cup (IF Thorough THEN {F5, N6} ELSE {})
TriMaxN == IF Thorough THEN 5 ELSE 4

IdxArgs(n) == {[i |-> k, top |-> 0] : k \in 0..(n + 2)} \cup {[i |-> k, top |-> 1] : k \in 1..4}

\* grid construction from every short sequence over three values (C11): the
\* defect (unordered, duplicated) at every position, too few points
SeqsUpTo(V, n) == UNION {[1..L -> V] : L \in 0..n}
GridNewCases == {[op |-> "GridNew", pts |-> s, route |-> r] :
                   s \in SeqsUpTo({FromInt(0), FromInt(1), FromInt(2)}, IF Thorough THEN 5 ELSE 4), r \in {0, 1, 2}}

CasesFor(a) ==
  LET g == a.g
      n == Len(g)
      whole == a = SupWhole(g)
  IN {[op |-> "SupRead", a |-> a]}
     \cup {[op |-> "SupIdx", a |-> a, i |-> x.i, top |-> x.top] : x \in IdxArgs(n)}
     \cup {[op |-> "SupBin", a |-> a, b |-> b, share |-> sh] : b \in SupportsOn(g), sh \in {0, 1}}
     \* the other operand on a logically different grid (equality is false, union/intersection are refused)
     \cup (IF n <= 4 THEN {[op |-> "SupBin", a |-> a, b |-> b, share |-> 0] : b \in UNION {SupportsOn(v) : v \in GridVariants(g)}} ELSE {})
     \cup (IF n <= TriMaxN
           THEN {[op |-> "SupTri", a |-> a, b |-> b, c |-> c] : b \in SupportsOn(g), c \in SupportsOn(g)}
           ELSE {})
     \cup (IF whole
           THEN {[op |-> "SupNew", g |-> g, s |-> s, e |-> e, stop |-> 0, etop |-> 0] : s \in 0..(n + 2), e \in 0..(n + 2)}
                \cup {[op |-> "SupNew", g |-> g, s |-> s, e |-> k, stop |-> 0, etop |-> 1] : s \in 0..2, k \in 1..2}
                \cup {[op |-> "SupNew", g |-> g, s |-> k, e |-> e, stop |-> 1, etop |-> 0] : e \in 0..2, k \in 1..2}
                \cup {[op |-> "SupNew", g |-> g, s |-> 2, e |-> 1, stop |-> 1, etop |-> 1]}
                \cup {[op |-> "GridAt", g |-> g, i |-> x.i, top |-> x.top] : x \in IdxArgs(n)}
                \cup {[op |-> "GridFind", g |-> g, x |-> x] : x \in {g[k] : k \in DOMAIN g} \cup {RSub(g[1], ROne), RAdd(g[n], ROne), Mid(g, 0)}}
           ELSE {})
     \cup (IF a = SupWhole(EvenGrid(2)) THEN GridNewCases ELSE {})

\* size sweep: grids with every number of points up to a bound (and around 64), windows at the far end, in
\* the middle and not starting at 0; index arguments around both window ends
SweepWins(N) == {w \in {<<0, N>>, <<1, N>>, <<N - 1, N>>, <<0, N - 1>>, <<N \div 2, N>>, <<0, (N \div 2) + 1>>, <<N - 3, N - 1>>, <<0, 0>>} :
                   (w[1] = 0 /\ w[2] = 0) \/ (0 <= w[1] /\ w[1] < w[2] /\ w[2] <= N)}
SweepSups == UNION {{Sup(SweepGrid(n), w[1], w[2]) : w \in SweepWins(n + 1)} : n \in {m \in SweepSizes : m >= 6}}
NearIdx(a) == {i \in {0, 1, 2, a.s - 1, a.s, a.s + 1, a.e - a.s - 2, a.e - a.s - 1, a.e - a.s, a.e - 2, a.e - 1, a.e, a.e + 1, Len(a.g) - 1, Len(a.g), Len(a.g) + 1} : i >= 0}
SweepCasesFor(a) ==
  LET g == a.g
      n == Len(g)
  IN {[op |-> "SupRead", a |-> a]}
     \cup {[op |-> "SupIdx", a |-> a, i |-> i, top |-> 0] : i \in NearIdx(a)} \cup {[op |-> "SupIdx", a |-> a, i |-> k, top |-> 1] : k \in 1..2}
     \cup {[op |-> "SupBin", a |-> a, b |-> Sup(g, w[1], w[2]), share |-> sh] : w \in SweepWins(n), sh \in {0, 1}}
     \cup (IF a = SupWhole(g)
           THEN {[op |-> "SupBin", a |-> a, b |-> SupWhole(v), share |-> 0] : v \in GridVariants(g)}
                \cup {[op |-> "SupBin", a |-> Sup(g, n - 1, n), b |-> Sup(v, Len(v) - 1, Len(v)), share |-> 0] : v \in GridVariants(g)}
                \cup {[op |-> "SupNew", g |-> g, s |-> s, e |-> e, stop |-> 0, etop |-> 0] : s \in {0, 1, n - 1, n, n + 1}, e \in {0, 1, n - 1, n, n + 1}}
                \cup {[op |-> "GridAt", g |-> g, i |-> i, top |-> 0] : i \in {0, 1, n - 2, n - 1, n, n + 1}}
                \cup {[op |-> "GridFind", g |-> g, x |-> x] : x \in {g[k] : k \in DOMAIN g} \cup {RSub(g[1], ROne), RAdd(g[n], ROne), Mid(g, 0), Mid(g, n - 2)}}
           ELSE {})

Init == \/ \E g \in Grids : \E a \in SupportsOn(g) : st = [ph |-> 0, a |-> a, sw |-> 0]
        \/ \E a \in SweepSups : st = [ph |-> 0, a |-> a, sw |-> 1]
Next == /\ st.ph = 0
        /\ \E c \in (IF st.sw = 1 THEN SweepCasesFor(st.a) ELSE CasesFor(st.a)) : st' = [ph |-> 1, c |-> c]
Spec == Init /\ [][Next]_st

Emit == (st'.ph = 1) => CSVWrite("%1$s", <<ToJson(st'.c)>>, OutFile)

-----------------------------------------------------------------------------
\* What TLC decides on the specification

\* the code's validity scan accepts exactly the valid windows (all small s, e)
AcceptOK == st.ph = 1 /\ st.c.op = "SupNew" /\ st.c.stop = 0 /\ st.c.etop = 0 =>
              (SupAcceptsI(Len(st.c.g), st.c.s, st.c.e) <=> SupValid(Sup(st.c.g, st.c.s, st.c.e)))

BinOK == st.ph = 1 /\ st.c.op = "SupBin" =>
  LET a == st.c.a
      b == st.c.b
  IN IF a.g # b.g THEN ~EqI(a, b) /\ ~SupEq(a, b) ELSE
     /\ UnionPost(a, b, UnionI(a, b))
     /\ InterPost(a, b, InterI(a, b))
     /\ UnionI(a, b) = UnionI(b, a) /\ InterI(a, b) = InterI(b, a)           \* commutative
     /\ SupEq(UnionI(a, a), a) /\ SupEq(InterI(a, a), a)                     \* idempotent
     /\ (EqI(a, b) <=> SupEq(a, b))
     /\ (SupIsEmpty(b) => SupEq(UnionI(a, b), a))
     /\ SupPts(InterI(a, b)) \subseteq SupPts(UnionI(a, b))
     /\ UnionI(a, InterI(a, b)) = UnionI(a, SupEmptyOn(a.g))                 \* absorption
TriOK == st.ph = 1 /\ st.c.op = "SupTri" =>
  LET a == st.c.a
      b == st.c.b
      c == st.c.c
  IN /\ UnionI(UnionI(a, b), c) = UnionI(a, UnionI(b, c))
     /\ InterI(InterI(a, b), c) = InterI(a, InterI(b, c))

\* the whole index word: model word w stands for the true index w (small) or
\* 2^64 - (2^W - w) (large, never contained in any window)
IsSmall(w) == w < WMod \div 2
WordOK == st.ph = 0 /\ st.sw = 0 =>
  LET S == st.a IN
  \A w \in 0..(WMod - 1) :
     /\ RelFromAbsI(S, w) = (IF IsSmall(w) THEN RelFromAbs(S, w) ELSE None)
     /\ IvFromAbsI(S, w) = (IF IsSmall(w) THEN IvFromAbs(S, w) ELSE None)
     /\ AbsFromRelI(S, w) = (IF IsSmall(w) THEN AbsFromRel(S, w) ELSE None)
     /\ AtI(S, w) = (IF IsSmall(w) THEN SupAt(S, w) ELSE NoneR)
     /\ AtNoOOB(S, w)
     \* conversions are mutually inverse on contained indices
     /\ (RelFromAbsI(S, w) # None => AbsFromRelI(S, RelFromAbsI(S, w)) = w)
     /\ (AbsFromRelI(S, w) # None => RelFromAbsI(S, AbsFromRelI(S, w)) = w)

ReadOK == st.ph = 0 =>
  LET S == st.a IN
  /\ SupValid(S)
  /\ SupSize(S) = Cardinality(SupPts(S)) /\ Len(SupIter(S)) = SupSize(S)
  /\ SupNInt(S) = Cardinality(SupIvs(S))
  /\ (~SupIsEmpty(S) => SupFront(S) = SupIter(S)[1] /\ SupBack(S) = SupIter(S)[SupSize(S)])
  /\ \A i \in 0..(SupSize(S) - 1) : SupAt(S, i) = SupIter(S)[i + 1]

\* Grid::checkValidity: at least two points, then the strictly-increasing scan
GridAcceptsI(p) == Len(p) >= 2 /\ \A i \in 2..Len(p) : RLt(p[i - 1], p[i])
GridNewOK == st.ph = 1 /\ st.c.op = "GridNew" => (GridAcceptsI(st.c.pts) <=> GridValid(st.c.pts))

FindOK == st.ph = 1 /\ st.c.op = "GridFind" => GridFindI(st.c.g, st.c.x) = GridFind(st.c.g, st.c.x)
=============================================================================
