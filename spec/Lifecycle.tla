------------------------------ MODULE Lifecycle ------------------------------
(***************************************************************************)
(* The object-pool state machine (DESIGN.md section 1): a client holds a   *)
(* pool of live objects (grids, supports, splines of a static order) and   *)
(* applies public operations to them.  This module defines                 *)
(*   - the abstract pool and its class invariants (C10),                   *)
(*   - the command language shared with the conformance harness,           *)
(*   - Level I: Eff(pool, cmd), the effect of a command computed with the  *)
(*     implementation-shaped operators (used to generate histories),       *)
(*   - Level A: StepOK(pool, cmd, outcome, pool'), the contract of one     *)
(*     step incl. the frame condition (C14) and refusals (C08, C11).       *)
(*                                                                         *)
(* Pool values:  [k |-> "null"]                                            *)
(*               [k |-> "grid", g |-> pts]                                 *)
(*               [k |-> "sup",  g, s, e]                                   *)
(*               [k |-> "spl",  g, s, e, o, c]                             *)
(***************************************************************************)
EXTENDS Forms

Null == [k |-> "null"]
GridV(g) == [k |-> "grid", g |-> g]
SupV(S) == [k |-> "sup", g |-> S.g, s |-> S.s, e |-> S.e]
SplV(p) == [k |-> "spl", g |-> p.g, s |-> p.s, e |-> p.e, o |-> p.o, c |-> p.c]
AsSup(v) == Sup(v.g, v.s, v.e)
AsSpl(v) == Spl(v.g, v.s, v.e, v.o, v.c)
\* abstraction of a logged projection (drops harness bookkeeping fields)
AbsObj(v) == CASE v.k = "null" -> Null
            [] v.k = "grid" -> GridV(v.g)
            [] v.k = "sup" -> [k |-> "sup", g |-> v.g, s |-> v.s, e |-> v.e]
            [] v.k = "spl" -> [k |-> "spl", g |-> v.g, s |-> v.s, e |-> v.e, o |-> v.o, c |-> v.c]

IsGrid(v) == v.k = "grid"
IsSup(v) == v.k = "sup"
IsSpl(v) == v.k = "spl"

\* class invariants (C10)
ObjValid(v) == CASE v.k = "null" -> TRUE
                 [] v.k = "grid" -> GridValid(v.g)
                 [] v.k = "sup" -> SupValid(AsSup(v))
                 [] v.k = "spl" -> SplValid(AsSpl(v))
PoolValid(pool) == \A i \in DOMAIN pool : ObjValid(pool[i])

\* a moved-from support / spline: valid, interval-free, on the same grid
MovedFromOK(before, after) ==
  /\ after.k = before.k /\ after.g = before.g /\ ObjValid(after)
  /\ ~SupHasIntervals(Sup(after.g, after.s, after.e))
  /\ (IsSpl(before) => after.o = before.o /\ after.c = <<>>)

SameObj(a, b) == a = b

-----------------------------------------------------------------------------
\* Level I: effect of a command on the abstract pool.  A command that the
\* code refuses (throws) leaves the pool unchanged.

PrimOp(w) == CASE w = "Id" -> [k |-> "Id"]
               [] w = "Dx1" -> [k |-> "Dx", n |-> 1]
               [] w = "Dx2" -> [k |-> "Dx", n |-> 2]
               [] w = "X1" -> [k |-> "X", n |-> 1]

Refused(pool, c) ==
  CASE c.op = "GridNew" -> ~GridValid(c.pts)
    [] c.op = "SupNew" -> ~SupAcceptsI(Len(pool[c.grid].g), c.s, c.e)
    [] c.op = "SplNew" -> \/ ~SupAcceptsI(Len(pool[c.grid].g), c.s, c.e)
                          \/ ~SplValid(Spl(pool[c.grid].g, c.s, c.e, c.o, c.c))
    [] c.op \in {"AddAssign", "SubAssign"} -> pool[c.dst].g # pool[c.src].g
    [] c.op \in {"Add", "Sub", "Mul", "Union", "Inter", "BF"} -> pool[c.a].g # pool[c.b].g
    [] c.op = "LinComb" -> \E i \in DOMAIN c.srcs : pool[c.srcs[i]].g # pool[c.srcs[1]].g
    [] OTHER -> FALSE

FormOps(w) == CASE w = "sp" -> <<[k |-> "Id"], [k |-> "Id"]>>
                [] w = "dx" -> <<[k |-> "Dx", n |-> 1], [k |-> "Dx", n |-> 1]>>
                [] w = "xd" -> <<[k |-> "X", n |-> 1], [k |-> "Dx", n |-> 1]>>

Eff(pool, c) ==
  IF Refused(pool, c) THEN pool
  ELSE
  CASE c.op = "GridNew" -> [pool EXCEPT ![c.dst] = GridV(c.pts)]
    [] c.op = "SupNew" -> [pool EXCEPT ![c.dst] = SupV(Sup(pool[c.grid].g, c.s, c.e))]
    [] c.op = "SplNew" -> [pool EXCEPT ![c.dst] = SplV(Spl(pool[c.grid].g, c.s, c.e, c.o, c.c))]
    [] c.op \in {"Copy", "CopyAssign"} -> [pool EXCEPT ![c.dst] = pool[c.src]]
    [] c.op \in {"Move", "MoveAssign"} ->
         LET v == pool[c.src]
             left == IF IsSup(v) THEN SupV(SupEmptyOn(v.g)) ELSE SplV(EmptySpl(v.g, v.o))
         IN [pool EXCEPT ![c.dst] = v, ![c.src] = left]
    [] c.op = "AssignLower" -> [pool EXCEPT ![c.dst] = SplV(AssignLowerI(AsSpl(pool[c.src]), pool[c.dst].o))]
    [] c.op = "AddAssign" -> [pool EXCEPT ![c.dst] = SplV(AddI(AsSpl(pool[c.dst]), AsSpl(pool[c.src])))]
    [] c.op = "SubAssign" -> [pool EXCEPT ![c.dst] = SplV(SubI(AsSpl(pool[c.dst]), AsSpl(pool[c.src])))]
    [] c.op = "ScaleAssign" -> [pool EXCEPT ![c.dst] = SplV(ScaleI(AsSpl(pool[c.dst]), c.kk))]
    [] c.op = "DivAssign" -> [pool EXCEPT ![c.dst] = SplV(DivI(AsSpl(pool[c.dst]), c.kk))]
    [] c.op = "Add" -> [pool EXCEPT ![c.dst] = SplV(AddI(AsSpl(pool[c.a]), AsSpl(pool[c.b])))]
    [] c.op = "Sub" -> [pool EXCEPT ![c.dst] = SplV(SubI(AsSpl(pool[c.a]), AsSpl(pool[c.b])))]
    [] c.op = "Mul" -> [pool EXCEPT ![c.dst] = SplV(MulI(AsSpl(pool[c.a]), AsSpl(pool[c.b])))]
    [] c.op = "Scale" -> [pool EXCEPT ![c.dst] = SplV(ScaleI(AsSpl(pool[c.a]), c.kk))]
    [] c.op = "Neg" -> [pool EXCEPT ![c.dst] = SplV(NegI(AsSpl(pool[c.a])))]
    [] c.op = "Apply" -> [pool EXCEPT ![c.dst] = SplV(ApplyI(PrimOp(c.which), AsSpl(pool[c.a]), <<>>))]
    [] c.op = "Union" -> [pool EXCEPT ![c.dst] = SupV(UnionI(AsSup(pool[c.a]), AsSup(pool[c.b])))]
    [] c.op = "Inter" -> [pool EXCEPT ![c.dst] = SupV(InterI(AsSup(pool[c.a]), AsSup(pool[c.b])))]
    [] c.op = "GetSupport" -> [pool EXCEPT ![c.dst] = SupV(SplSup(AsSpl(pool[c.src])))]
    [] c.op = "GetGrid" -> [pool EXCEPT ![c.dst] = GridV(pool[c.src].g)]
    [] c.op = "Destroy" -> [pool EXCEPT ![c.dst] = Null]
    [] c.op = "LinComb" -> [pool EXCEPT ![c.dst] = SplV(LinCombI(c.cs, [i \in DOMAIN c.srcs |-> AsSpl(pool[c.srcs[i]])]))]
    [] c.op \in {"Eval", "BF"} -> pool

-----------------------------------------------------------------------------
\* Level A: contract of one observed step.
\*   pre, post : pools (functions slot -> value);  out : "ok" / "throw";  code

Unchanged(pre, post, S) == \A i \in S : post[i] = pre[i]
Others(pre, S) == DOMAIN pre \ S

\* the value the target must hold after a successful step
TargetOK(pre, c, post) ==
  CASE c.op = "GridNew" -> post[c.dst] = GridV(c.pts)
    [] c.op = "SupNew" -> post[c.dst] = SupV(Sup(pre[c.grid].g, c.s, c.e))
    [] c.op = "SplNew" -> post[c.dst] = SplV(Spl(pre[c.grid].g, c.s, c.e, c.o, c.c))
    [] c.op \in {"Copy", "CopyAssign"} -> post[c.dst] = pre[c.src]
    [] c.op \in {"Move", "MoveAssign"} ->
         \* x = std::move(x): the object stays a valid one of its kind on its grid - untouched or as a moved-from object is
         IF c.dst = c.src THEN post[c.dst] = pre[c.dst] \/ MovedFromOK(pre[c.dst], post[c.dst])
         ELSE post[c.dst] = pre[c.src] /\ MovedFromOK(pre[c.src], post[c.src])
    [] c.op = "AssignLower" -> SameFnPost(AsSpl(pre[c.src]), AsSpl(post[c.dst]), pre[c.dst].o)
    [] c.op = "AddAssign" -> IsSpl(post[c.dst]) /\ AddPost(AsSpl(pre[c.dst]), AsSpl(pre[c.src]), AsSpl(post[c.dst]))
    [] c.op = "SubAssign" -> IsSpl(post[c.dst]) /\ SubPost(AsSpl(pre[c.dst]), AsSpl(pre[c.src]), AsSpl(post[c.dst]))
    [] c.op = "ScaleAssign" -> IsSpl(post[c.dst]) /\ ScalePost(AsSpl(pre[c.dst]), c.kk, AsSpl(post[c.dst]))
    [] c.op = "DivAssign" -> IsSpl(post[c.dst]) /\ ScalePost(AsSpl(pre[c.dst]), RDiv(ROne, c.kk), AsSpl(post[c.dst]))
    [] c.op = "Add" -> IsSpl(post[c.dst]) /\ AddPost(AsSpl(pre[c.a]), AsSpl(pre[c.b]), AsSpl(post[c.dst]))
    [] c.op = "Sub" -> IsSpl(post[c.dst]) /\ SubPost(AsSpl(pre[c.a]), AsSpl(pre[c.b]), AsSpl(post[c.dst]))
    [] c.op = "Mul" -> IsSpl(post[c.dst]) /\ MulPost(AsSpl(pre[c.a]), AsSpl(pre[c.b]), AsSpl(post[c.dst]))
    [] c.op = "Scale" -> IsSpl(post[c.dst]) /\ ScalePost(AsSpl(pre[c.a]), c.kk, AsSpl(post[c.dst]))
    [] c.op = "Neg" -> IsSpl(post[c.dst]) /\ ScalePost(AsSpl(pre[c.a]), FromInt(-1), AsSpl(post[c.dst]))
    [] c.op = "Apply" -> IsSpl(post[c.dst]) /\ ApplyPost(PrimOp(c.which), AsSpl(pre[c.a]), <<>>, AsSpl(post[c.dst]))
    [] c.op = "Union" -> IsSup(post[c.dst]) /\ UnionPost(AsSup(pre[c.a]), AsSup(pre[c.b]), AsSup(post[c.dst]))
    [] c.op = "Inter" -> IsSup(post[c.dst]) /\ InterPost(AsSup(pre[c.a]), AsSup(pre[c.b]), AsSup(post[c.dst]))
    [] c.op = "GetSupport" -> post[c.dst] = SupV(SplSup(AsSpl(pre[c.src])))
    [] c.op = "GetGrid" -> post[c.dst] = GridV(pre[c.src].g)
    [] c.op = "Destroy" -> post[c.dst] = Null
    [] c.op = "LinComb" -> IsSpl(post[c.dst]) /\ LinCombPost(c.cs, [i \in DOMAIN c.srcs |-> AsSpl(pre[c.srcs[i]])], AsSpl(post[c.dst]))
    [] c.op \in {"Eval", "BF"} -> TRUE

\* Operands handed over as rvalues (std::move(x); field rv: 1 = first / only
\* operand, 2 = second operand, for Scale also 2 = k * std::move(x), 3 = std::move(x) / k).
\* The pinned code has no rvalue overloads, so Eff leaves them alone; the
\* contract allows a call to consume them, but then they must be left as a
\* moved-from object is: valid, interval-free, on the same grid (C10).
RvSlots(c) ==
  IF "rv" \notin DOMAIN c \/ c.rv = 0 THEN {}
  ELSE CASE c.op \in {"Scale", "Neg", "Apply"} -> {c.a}
         [] c.op \in {"Add", "Sub", "Mul", "Union", "Inter"} -> {IF c.rv = 1 THEN c.a ELSE c.b}
         [] c.op \in {"AddAssign", "SubAssign"} -> {c.src}
         [] OTHER -> {}
RvOK(pre, c, post) == \A i \in RvSlots(c) : i = c.dst \/ post[i] = pre[i] \/ MovedFromOK(pre[i], post[i])

\* slots a successful step may change (C14: nothing else)
Targets(c) ==
  CASE c.op \in {"Move", "MoveAssign"} -> {c.dst, c.src}
    [] c.op \in {"Eval", "BF"} -> {}
    [] OTHER -> {c.dst} \cup RvSlots(c)

MustRefuse(pre, c) ==
  CASE c.op = "GridNew" -> ~GridValid(c.pts)
    [] c.op = "SupNew" -> ~SupValid(Sup(pre[c.grid].g, c.s, c.e))
    [] c.op = "SplNew" -> ~SplValid(Spl(pre[c.grid].g, c.s, c.e, c.o, c.c))
    [] c.op \in {"AddAssign", "SubAssign"} -> pre[c.dst].g # pre[c.src].g
    [] c.op \in {"Add", "Sub", "Mul", "Union", "Inter", "BF"} -> pre[c.a].g # pre[c.b].g
    [] c.op = "LinComb" -> \E i \in DOMAIN c.srcs : pre[c.srcs[i]].g # pre[c.srcs[1]].g
    [] OTHER -> FALSE
CrossGrid(c) == c.op \in {"AddAssign", "SubAssign", "Add", "Sub", "Mul", "Union", "Inter", "LinComb", "BF"}
=============================================================================
