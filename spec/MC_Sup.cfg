SPECIFICATION Spec
CONSTANTS
  WBITS = 5
  Bug_AtWraps = FALSE
  Bug_IntervalWraps = FALSE
  Bug_GridScanGE = FALSE
  TIER = "quick"
ACTION_CONSTRAINT Emit
INVARIANTS GridNewOK AcceptOK BinOK TriOK WordOK ReadOK FindOK
CHECK_DEADLOCK FALSE
