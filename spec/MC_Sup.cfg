SPECIFICATION Spec
CONSTANTS
  WBITS = 5
  Bug_AtWraps = FALSE
  Bug_IntervalWraps = FALSE
  TIER = "quick"
ACTION_CONSTRAINT Emit
INVARIANTS AcceptOK BinOK TriOK WordOK ReadOK FindOK
CHECK_DEADLOCK FALSE
