SPECIFICATION Spec
CONSTANTS
  WBITS = 5
  Bug_AtWraps = FALSE
  Bug_IntervalWraps = FALSE
  Bug_GridScanGE = FALSE
  Bug_SplineOpLookupByPoint = FALSE
  Bug_IntReciprocal = FALSE
  TIER = "quick"
ACTION_CONSTRAINT Emit
INVARIANTS LinearOK DefaultOK AssemblyOK
CHECK_DEADLOCK FALSE
