SPECIFICATION FairSpec
CONSTANTS
  NT = 2
  Scripts <- ScriptsDef
  AtomicCount = TRUE
  GuardedStatic = TRUE
  LocalScratch = TRUE
INVARIANTS TypeOK NoUseAfterFree CountMatchesHandles FreedAtMostOnce FreedOnlyWithoutHandles QuiescentOK Deterministic
PROPERTY Termination
CHECK_DEADLOCK FALSE
