------------------------- MODULE ContractsStateless -------------------------
(***************************************************************************)
(* Level-A contracts on recorded events, one operator per harness action.  *)
(* An event ev is a record decoded from one JSON line (Appendix B of       *)
(* DESIGN.md).  Conventions of the harness:                                *)
(*   ev.<k>       = "ok" | "throw" | "foreign"   outcome of call k         *)
(*   ev.<k>_code  = error-code name of the BSplineException, or "none"     *)
(*   ev.<k>_v     = projected value when the outcome is "ok"               *)
(*   ev.big       = 1 iff some value did not fit TLC's integers            *)
(* Booleans are 0/1.  Index arguments are (i, top): top = 1 means 2^64-i.  *)
(***************************************************************************)
EXTENDS Interp

CONSTANT PROP      \* the property whose view of the events is judged ("ALL" = every conjunct)
For(p) == PROP = "ALL" \/ PROP = p
Has(ev, k) == k \in DOMAIN ev
B(x) == x = 1
Sane(ev) == ~Has(ev, "harness_error") /\ ev.big = 0

Threw(ev, k) == ev[k] = "throw"                         \* the library's exception type
ThrewCode(ev, k, code) == ev[k] = "throw" /\ ev[k \o "_code"] = code
OkVal(ev, k, v) == ev[k] = "ok" /\ ev[k \o "_v"] = v
\* result v (None / NoneR = refused) is reported faithfully
IdxRes(ev, k, v) == IF v = None THEN Threw(ev, k) ELSE OkVal(ev, k, v)
RatRes(ev, k, v) == IF v = NoneR THEN Threw(ev, k) ELSE OkVal(ev, k, v)

SupOf(j) == Sup(j.g, j.s, j.e)

-----------------------------------------------------------------------------
\* grids and supports (C13, C11, C09)

GridNewOK(ev) ==
  IF GridValid(ev.pts)
  THEN /\ For("C11") => ev.out = "ok"
       /\ For("C10") /\ ev.out = "ok" => GridValid(ev.res)
       /\ For("C13") /\ ev.out = "ok" =>
             /\ ev.res = ev.pts /\ ev.size = Len(ev.pts) /\ ev.empty = 0
             /\ ev.front = ev.pts[1] /\ ev.back = ev.pts[Len(ev.pts)] /\ ev.iter = ev.pts
             /\ B(ev.copy_eq)
       /\ For("C14") /\ ev.out = "ok" => B(ev.copy_shares)
  ELSE For("C11") => /\ Threw(ev, "out") /\ ev.out_what = 1
                     /\ (Len(ev.pts) < 2 => ev.out_code = "MISSING_DATA")

GridFindOK(ev) == /\ For("C13") => IdxRes(ev, "find", GridFind(ev.g, ev.x))
                  /\ For("C14") => ev.g_after = ev.g

GridAtOK(ev) ==
  LET inr == ev.top = 0 /\ ev.i < Len(ev.g)
  IN /\ For("C13") \/ (For("C09") /\ ~inr) => RatRes(ev, "at", IF inr THEN ev.g[ev.i + 1] ELSE NoneR)
     /\ For("C13") => (inr => ev.sub_v = ev.g[ev.i + 1])
     /\ For("C14") => ev.g_after = ev.g

SupNewOK(ev) ==
  LET small == ev.stop = 0 /\ ev.etop = 0
      S == Sup(ev.g, ev.s, ev.e)
  IN /\ For("C11") => IF small /\ SupValid(S) THEN ev.out = "ok" ELSE Threw(ev, "out")
     /\ For("C10") => /\ (ev.out = "ok" => SupValid(SupOf(ev.res)))
                       /\ SupValid(SupOf(ev.mkempty)) /\ SupValid(SupOf(ev.mkwhole))
     /\ For("C13") => /\ (ev.out = "ok" => SupOf(ev.res) = S)
                       /\ SupOf(ev.mkempty) = SupEmptyOn(ev.g)
                       /\ SupOf(ev.mkwhole) = SupWhole(ev.g)
     /\ For("C14") => ev.g_after = ev.g

SupReadOK(ev) ==
  LET S == SupOf(ev.a) IN
  /\ For("C14") => SupOf(ev.a_after) = S                                     \* reading changes nothing
  /\ For("C13") =>
       /\ SupValid(S)
       /\ ev.size = SupSize(S) /\ B(ev.empty) = SupIsEmpty(S)
       /\ B(ev.hasiv) = SupHasIntervals(S) /\ ev.nint = SupNInt(S)
       /\ RatRes(ev, "front", SupFront(S)) /\ RatRes(ev, "back", SupBack(S))
       /\ ev.iter = SupIter(S) /\ ev.dist = SupSize(S) /\ ev.sub = SupIter(S)
       /\ B(ev.grid_eq) /\ B(ev.self_eq)

SupIdxOK(ev) ==
  LET S == SupOf(ev.a)
      small == ev.top = 0
      i == ev.i
      inr == small /\ SupAt(S, i) # NoneR
  IN /\ For("C13") =>
          /\ ev.rel = (IF small THEN RelFromAbs(S, i) ELSE None)
          /\ ev.iv = (IF small THEN IvFromAbs(S, i) ELSE None)
          /\ IdxRes(ev, "abs", IF small THEN AbsFromRel(S, i) ELSE None)
          /\ RatRes(ev, "at", IF small THEN SupAt(S, i) ELSE NoneR)
          /\ (Has(ev, "sub_v") => small /\ ev.sub_v = SupAt(S, i))
          \* mutually inverse on contained indices
          /\ (ev.rel # None => AbsFromRel(S, ev.rel) = i)
     \* checked accessors throw for every index outside the view (C09)
     /\ For("C09") => (~inr => Threw(ev, "at") /\ Threw(ev, "abs"))
     /\ For("C14") => SupOf(ev.a_after) = S

SupBinOK(ev) ==
  LET a == SupOf(ev.a)
      b == SupOf(ev.b)
  IN /\ For("C14") => SupOf(ev.a_after) = a /\ SupOf(ev.b_after) = b         \* operands untouched
     /\ For("C13") => /\ B(ev.same) = GridEq(a.g, b.g)
                       /\ B(ev.eq) = SupEq(a, b) /\ B(ev.ne) = ~SupEq(a, b)
     /\ IF GridEq(a.g, b.g)
        THEN /\ For("C13") \/ For("C08") =>
                  /\ ev.un = "ok" /\ UnionPost(a, b, SupOf(ev.un_v))
                  /\ ev.in = "ok" /\ InterPost(a, b, SupOf(ev.in_v))
             /\ For("C10") => SupValid(SupOf(ev.un_v)) /\ SupValid(SupOf(ev.in_v))
        ELSE For("C08") => /\ ThrewCode(ev, "un", "DIFFERING_GRIDS")
                           /\ ThrewCode(ev, "in", "DIFFERING_GRIDS")

SupTriOK(ev) ==
  LET a == SupOf(ev.a)
      b == SupOf(ev.b)
      c == SupOf(ev.c)
      all == SupPts(a) \cup SupPts(b) \cup SupPts(c)
  IN /\ For("C14") => SupOf(ev.a_after) = a /\ SupOf(ev.b_after) = b /\ SupOf(ev.c_after) = c
     /\ For("C13") =>
          /\ SupOf(ev.u_l) = SupOf(ev.u_r) /\ SupOf(ev.i_l) = SupOf(ev.i_r)
          /\ SupValid(SupOf(ev.u_l)) /\ SupPts(SupOf(ev.u_l)) = Hull(all)
          /\ SupValid(SupOf(ev.i_l)) /\ SupPts(SupOf(ev.i_l)) = SupPts(a) \cap SupPts(b) \cap SupPts(c)

EventOK_Sup(ev) ==
  CASE ev.op = "GridNew" -> GridNewOK(ev)
    [] ev.op = "GridFind" -> GridFindOK(ev)
    [] ev.op = "GridAt" -> GridAtOK(ev)
    [] ev.op = "SupNew" -> SupNewOK(ev)
    [] ev.op = "SupRead" -> SupReadOK(ev)
    [] ev.op = "SupIdx" -> SupIdxOK(ev)
    [] ev.op = "SupBin" -> SupBinOK(ev)
    [] ev.op = "SupTri" -> SupTriOK(ev)
    [] OTHER -> FALSE


-----------------------------------------------------------------------------
\* splines (C02, C03, C08, C10, C11, C14, C15)

SplOf(j) == Spl(j.g, j.s, j.e, j.o, j.c)

SplNewOK(ev) ==
  LET p == Spl(ev.g, ev.s, ev.e, ev.o, ev.c)
  IN /\ For("C11") => IF SplValid(p) THEN ev.out = "ok" ELSE Threw(ev, "out") /\ ev.out_what = 1
     /\ For("C14") => ev.g_after = ev.g
     /\ For("C10") => /\ (ev.out = "ok" => SplValid(SplOf(ev.res)))
                       /\ SplValid(SplOf(ev.mkempty))
     /\ For("C03") => /\ (ev.out = "ok" => SplOf(ev.res) = p)
                       /\ SplOf(ev.mkempty) = EmptySpl(ev.g, ev.o)

\* front()/back(): the end points of the support; must throw for an empty
\* support; for a point-like support (no interval, one point) the pinned code
\* returns the point - "throws" and "returns the point" are both accepted.
EndOK(ev, k, p, v) ==
  IF SupIsEmpty(SplSup(p)) THEN Threw(ev, k)
  ELSE IF SupHasIntervals(SplSup(p)) THEN OkVal(ev, k, v)
  ELSE Threw(ev, k) \/ OkVal(ev, k, v)

SplEvalOK(ev) ==
  LET p == SplOf(ev.a) IN
  /\ For("C14") => SplOf(ev.a_after) = p /\ ev.vals2 = ev.vals      \* evaluating does not change later evaluations
  /\ For("C02") =>
       /\ SplValid(p) /\ Len(ev.vals) = Len(ev.xs)
       /\ \A i \in DOMAIN ev.xs : EvalPost(p, ev.xs[i], ev.vals[i]) /\ EvalPost(p, ev.xs[i], ev.vals2[i])
       /\ EndOK(ev, "front", p, SupFront(SplSup(p)))
       /\ EndOK(ev, "back", p, SupBack(SplSup(p)))
       \* third pass: an equal spline on a moved grid, built where the first one lived, evaluated at the moved abscissae
       /\ (Has(ev, "a2") => /\ SplValid(SplOf(ev.a2)) /\ Len(ev.vals3) = Len(ev.xs2)
                            /\ \A i \in DOMAIN ev.xs2 : EvalPost(SplOf(ev.a2), ev.xs2[i], ev.vals3[i]))

SplUnOK(ev) ==
  LET a == SplOf(ev.a)
      k == ev.k
      results == {ev.mulr, ev.mull, ev.neg, ev.imul, ev.up1, ev.up3}
                 \cup (IF Has(ev, "div") THEN {ev.div, ev.idiv} ELSE {})
  IN /\ For("C14") => SplOf(ev.a_after) = a /\ B(ev.copy_distinct)
     /\ For("C10") => \A r \in results : SplValid(SplOf(r))
     /\ For("C03") =>
          /\ SplValid(a)
          /\ ScalePost(a, k, SplOf(ev.mulr)) /\ ScalePost(a, k, SplOf(ev.mull))
          /\ ScalePost(a, FromInt(-1), SplOf(ev.neg))
          /\ ScalePost(a, k, SplOf(ev.imul)) /\ B(ev.imul_ref)
          /\ (~RIsZero(k) => /\ ScalePost(a, RDiv(ROne, k), SplOf(ev.div))
                             /\ ScalePost(a, RDiv(ROne, k), SplOf(ev.idiv)) /\ B(ev.idiv_ref))
          /\ SameFnPost(a, SplOf(ev.up1), a.o + 1) /\ SameFnPost(a, SplOf(ev.up3), a.o + 3)
     /\ For("C15") => IsZeroPost(a, B(ev.iszero)) /\ B(ev.copy_eq)

SplBinOK(ev) ==
  LET a == SplOf(ev.a)
      b == SplOf(ev.b)
      arith == /\ ev.add = "ok" /\ AddPost(a, b, SplOf(ev.add_v))
               /\ ev.sub = "ok" /\ SubPost(a, b, SplOf(ev.sub_v))
               /\ ev.mul = "ok" /\ MulPost(a, b, SplOf(ev.mul_v))
               /\ (Has(ev, "iadd") => /\ ev.iadd = "ok" /\ AddPost(a, b, SplOf(ev.iadd_v))
                                      /\ ev.isub = "ok" /\ SubPost(a, b, SplOf(ev.isub_v)))
  IN /\ For("C14") => /\ SplOf(ev.a_after) = a /\ SplOf(ev.b_after) = b
                       /\ (Has(ev, "iadd") /\ ev.iadd # "ok" => SplOf(ev.iadd_v) = a)
                       /\ (Has(ev, "isub") /\ ev.isub # "ok" => SplOf(ev.isub_v) = a)
     /\ For("C15") => /\ (Has(ev, "eq") => /\ SplEqPost(a, b, B(ev.eq)) /\ B(ev.ne) = ~B(ev.eq))
                       /\ (GridEq(a.g, b.g) =>
                            /\ OverlapPost(a, b, B(ev.overlap))
                            /\ (ev.mul = "ok" => (B(ev.overlap) <=> SupHasIntervals(SplSup(SplOf(ev.mul_v))))))
     /\ For("C10") => (\A k \in {"add_v", "sub_v", "mul_v", "iadd_v", "isub_v"} : (Has(ev, k) => SplValid(SplOf(ev[k]))))
     /\ IF GridEq(a.g, b.g)
        THEN For("C03") \/ For("C08") => SplValid(a) /\ SplValid(b) /\ arith
        ELSE For("C08") =>
             /\ ThrewCode(ev, "add", "DIFFERING_GRIDS") /\ ThrewCode(ev, "sub", "DIFFERING_GRIDS")
             /\ ThrewCode(ev, "mul", "DIFFERING_GRIDS")
             /\ (Has(ev, "iadd") => /\ ThrewCode(ev, "iadd", "DIFFERING_GRIDS") /\ SplOf(ev.iadd_v) = a
                                    /\ ThrewCode(ev, "isub", "DIFFERING_GRIDS") /\ SplOf(ev.isub_v) = a)

SplLinOK(ev) ==
  LET ss == [i \in DOMAIN ev.ss |-> SplOf(ev.ss[i])]
      cs == ev.cs
      sizesOK == Len(cs) = Len(ss) /\ Len(cs) >= 1
      gridsOK == \A i \in DOMAIN ss : ss[i].g = ss[1].g
  IN /\ For("C14") => (\A i \in DOMAIN ss : SplOf(ev.ss_after[i]) = ss[i]) /\ ev.cs_after = cs
     /\ For("C10") => (\A k \in {"lc_v", "lci_v"} : (Has(ev, k) => SplValid(SplOf(ev[k]))))
     /\ IF sizesOK /\ gridsOK
        THEN For("C03") \/ For("C08") \/ For("C11") =>
             /\ ev.lc = "ok" /\ LinCombPost(cs, ss, SplOf(ev.lc_v))
             /\ ev.lci = "ok" /\ LinCombPost(cs, ss, SplOf(ev.lci_v))
        ELSE IF sizesOK THEN For("C08") => ThrewCode(ev, "lc", "DIFFERING_GRIDS") /\ ThrewCode(ev, "lci", "DIFFERING_GRIDS")
        ELSE For("C11") => Threw(ev, "lc") /\ Threw(ev, "lci")

EventOK_Spl(ev) ==
  CASE ev.op = "SplNew" -> SplNewOK(ev)
    [] ev.op = "SplEval" -> SplEvalOK(ev)
    [] ev.op = "SplUn" -> SplUnOK(ev)
    [] ev.op = "SplBin" -> SplBinOK(ev)
    [] ev.op = "SplLin" -> SplLinOK(ev)
    [] OTHER -> FALSE

-----------------------------------------------------------------------------
\* operator expressions and forms (C04, C05, C06, C07, C08, C09, C14)

FsOf(ev) == [i \in DOMAIN ev.fs |-> SplOf(ev.fs[i])]

RECURSIVE UsesSpl(_)
UsesSpl(op) == CASE op.k = "Spl" -> TRUE
                 [] op.k \in {"Id", "X", "Dx"} -> FALSE
                 [] Bin(op) -> UsesSpl(op.l) \/ UsesSpl(op.r)
                 [] OTHER -> UsesSpl(op.o)

OpApplyOK(ev) ==
  LET a == SplOf(ev.a)
      fs == FsOf(ev)
      e == ev.ast
      native == \A i \in DOMAIN fs : fs[i].g = a.g
  IN /\ For("C14") => /\ SplOf(ev.a_after) = a
                       \* the operator holds its own copy of a spline factor (same outcome, same result
                       \* after the factor object was scaled in place)
                       /\ (ev.app = "ok" => ev.indep = "ok" /\ B(ev.indep_same))
     /\ For("C10") => (ev.app = "ok" => SplValid(SplOf(ev.app_v)))
     /\ IF native \/ ~UsesSpl(e)
        THEN /\ For("C04") \/ For("C05") \/ For("C08") => ev.app = "ok" /\ ApplyPost(e, a, fs, SplOf(ev.app_v))
             \* (the very-high-order cases, tag "hi", carry no linear form: its exact value leaves TLC's integers)
             /\ (For("C07") \/ For("C08")) /\ ev.tag # "hi" => ev.lf = "ok" /\ ev.lf_v = LinearVal(e, a, fs)
        ELSE For("C08") =>
             IF SupHasIntervals(SplSup(a))
             THEN ThrewCode(ev, "app", "DIFFERING_GRIDS") /\ ThrewCode(ev, "lf", "DIFFERING_GRIDS")
             ELSE \* nothing to transform: an interval-free result / zero, or the refusal
                  /\ (ThrewCode(ev, "app", "DIFFERING_GRIDS")
                        \/ (ev.app = "ok" /\ ~SupHasIntervals(SplSup(SplOf(ev.app_v)))))
                  /\ (ThrewCode(ev, "lf", "DIFFERING_GRIDS") \/ (ev.lf = "ok" /\ ev.lf_v = RZero))

OpBFOK(ev) ==
  LET a == SplOf(ev.a)
      b == SplOf(ev.b)
      fs == FsOf(ev)
      native == \A i \in DOMAIN fs : fs[i].g = a.g
      foreignUsed == ~native /\ (UsesSpl(ev.e1) \/ UsesSpl(ev.e2))
  IN /\ For("C14") => SplOf(ev.a_after) = a /\ SplOf(ev.b_after) = b
     /\ IF a.g # b.g
        THEN For("C08") => ThrewCode(ev, "bf", "DIFFERING_GRIDS") /\ ThrewCode(ev, "sw", "DIFFERING_GRIDS")
        ELSE IF ~foreignUsed
        THEN /\ For("C06") \/ For("C08") =>
                  /\ ev.bf = "ok" /\ ev.bf_v = BilinearVal(ev.e1, ev.e2, a, b, fs)
                  /\ ev.sw = "ok" /\ ev.sw_v = ev.bf_v                 \* pairs swapped
                  /\ (Common(a, b) = {} => ev.bf_v = RZero)
                  \* the one-operator and default constructors, ScalarProduct
                  /\ (Has(ev, "bf1") => ev.bf1 = "ok" /\ ev.bf1_v = ev.bf_v)
                  /\ (Has(ev, "sp") => ev.sp = "ok" /\ ev.sp_v = ev.bf_v /\ ev.dflt_v = ev.bf_v)
             /\ For("C07") => ev.bf = "ok" /\ ev.lfp = "ok" /\ ev.lfp_v = ev.bf_v
        ELSE For("C08") =>
             IF Common(a, b) # {}
             THEN ThrewCode(ev, "bf", "DIFFERING_GRIDS") /\ ThrewCode(ev, "sw", "DIFFERING_GRIDS")
             ELSE \* no interval is transformed: zero or the refusal are both accepted
                  ThrewCode(ev, "bf", "DIFFERING_GRIDS") \/ (ev.bf = "ok" /\ ev.bf_v = RZero)

EventOK_Ops(ev) ==
  CASE ev.op = "OpApply" -> OpApplyOK(ev)
    [] ev.op = "OpBF" -> OpBFOK(ev)
    [] OTHER -> FALSE

-----------------------------------------------------------------------------
\* generator (C01, C08, C11)

GenEvOK(ev) ==
  LET k == ev.knots
      p == ev.p
      kv == KnotsValid(k)
      match == ev.route # 1 \/ ev.grid = Uniq(k)
      valid == kv /\ Len(k) >= p + 1 /\ match
      res == [i \in DOMAIN ev.res |-> SplOf(ev.res[i])]
  IN /\ For("C01") => (valid => ev.out = "ok" /\ GenPost(k, p, res)
                                /\ (Has(ev, "ggrid") => ev.ggrid = Uniq(k)))
     /\ For("C11") => /\ IF valid THEN ev.out = "ok" ELSE Threw(ev, "out")
                       \* the constructor alone accepts exactly the valid knot vectors (with a matching grid); the
                       \* count check belongs to generateBSplines
                       /\ (Has(ev, "ctor") => IF kv /\ match THEN ev.ctor = "ok" ELSE Threw(ev, "ctor"))
     /\ For("C08") => (kv /\ ~match => Threw(ev, "out") /\ (Has(ev, "ctor") => Threw(ev, "ctor")))
     /\ For("C10") => (ev.out = "ok" => \A i \in DOMAIN res : SplValid(res[i]))
     /\ For("C14") => /\ (ev.out = "ok" /\ Has(ev, "grid_shared") => B(ev.grid_shared))
                       /\ ev.knots_after = k                                 \* the caller's knot vector stays as it was

-----------------------------------------------------------------------------
\* interpolation with the exact solver (C12, C11)

InterpEvOK(ev) ==
  LET x == SupOf(ev.x)
      o == ev.order
      bcs == ev.bcs
      valid == ArgsValid(x, ev.y, o, bcs)
      singular == ev.out = "foreign" /\ ev.out_code = "std::exception: singular system"
  IN /\ For("C14") => SupOf(ev.x_after) = x /\ ev.y_after = ev.y /\ ev.bcs_after = ev.bcs
     /\ For("C11") => IF valid THEN ev.out = "ok" \/ singular ELSE Threw(ev, "out")
     /\ For("C10") => (ev.out = "ok" => SplValid(SplOf(ev.res)))
     /\ For("C12") => (valid =>
          IF ev.out = "ok"
          THEN InterpPost(x, ev.y, o, bcs, SplOf(ev.res)) /\ ProtocolOK(ev.lg, o, SupSize(x))
          ELSE singular /\ ~KnownSolvable(o, bcs))

-----------------------------------------------------------------------------
\* floating-point events (C16, C17): the inequality |F - E| <= 2^20 eps S was
\* evaluated by the harness against the E and S this specification supplied;
\* outcomes (no exception) are exact
FpVerdict(ev, ty, k) == ev[k] = "ok" /\ ev[ty].ok = 1 /\ ev[ty].n >= 1
\* C15's view of a floating event: every spline that denotes zero (built with signed zeros: a * 0, a * -0,
\* -(a * 0), a - a, ...) was reported zero by isZero - ScalePost / SubPost make its Den identically zero
FpZeroOK(ev, ty) == ev[ty].zp = ev[ty].zn
FpEvOK(ev) ==
  IF PROP = "C15" THEN ev.op = "FpBin" /\ FpZeroOK(ev, "float") /\ FpZeroOK(ev, "double") /\ FpZeroOK(ev, "ldouble")
  ELSE
  /\ (ev.op # "FpInt" => FpVerdict(ev, "float", "out_f"))
  /\ FpVerdict(ev, "double", "out_d") /\ FpVerdict(ev, "ldouble", "out_l")
  /\ (PROP = "ALL" /\ ev.op = "FpBin" => FpZeroOK(ev, "float") /\ FpZeroOK(ev, "double") /\ FpZeroOK(ev, "ldouble"))

\* grid construction from special floating-point values (C11):
\* pts[i] = <<tag, n, d>>, tag 0 number, 1 NaN, 2 +Inf, 3 -Inf, 4 -0.0
\* integrate<n> across logically different grids: refused with DIFFERING_GRIDS in every type
FpIntXOK(ev) == For("C08") => \A k \in {"out_d", "out_l"} : ThrewCode(ev, k, "DIFFERING_GRIDS")

FpGridNewOK(ev) ==
  \A k \in {"f", "d", "l"} :
     /\ For("C11") => IF XGridValid(ev.pts) THEN ev[k] = "ok" ELSE Threw(ev, k)
     \* a grid that came to life shows at least two strictly increasing points through its accessors
     /\ For("C10") => (ev[k] = "ok" => XGridValid(ev[k \o "_live"]))
     /\ ev[k] = "ok" => ev[k \o "_live"] = ev.pts

-----------------------------------------------------------------------------
\* example solvers (C20): the numeric contracts were evaluated by the harness
\* with the tolerances of DESIGN.md; every run must return normally
ExEvOK(ev) ==
  /\ ev.out = "ok"
  /\ CASE ev.op = "ExDiffusion" -> ev.attain = 1 /\ ev.scale_inv = 1 /\ ev.line = 1 /\ ev.support_whole = 1
       [] ev.op \in {"ExPotential", "ExPotentialWin"} -> ev.count = 10 /\ ev.shift_ok = 1 /\ ev.interp_ok = 1 /\ ev.sorted = 1
       [] OTHER -> ev.ok = 1

SupOps == {"GridNew", "GridFind", "GridAt", "SupNew", "SupRead", "SupIdx", "SupBin", "SupTri"}
SplOps == {"SplNew", "SplEval", "SplUn", "SplBin", "SplLin"}
EventOK(ev) == /\ Sane(ev)
               /\ CASE ev.op \in SupOps -> EventOK_Sup(ev)
                    [] ev.op \in SplOps -> EventOK_Spl(ev)
                    [] ev.op \in {"OpApply", "OpBF"} -> EventOK_Ops(ev)
                    [] ev.op = "Gen" -> GenEvOK(ev)
                    [] ev.op = "Interp" -> InterpEvOK(ev)
                    [] ev.op \in {"FpGen", "FpEval", "FpBin", "FpApply", "FpBF", "FpInt", "FpInterp"} -> FpEvOK(ev)
                    [] ev.op = "FpGridNew" -> FpGridNewOK(ev)
                    [] ev.op = "FpIntX" -> FpIntXOK(ev)
                    [] ev.op \in {"ExDiffusion", "ExPotential", "ExPotentialWin", "ExOscillator", "ExHydrogen"} -> ExEvOK(ev)
                    [] OTHER -> FALSE
=============================================================================
