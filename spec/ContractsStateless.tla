------------------------- MODULE ContractsStateless -------------------------
(***************************************************************************)
(* Level-A contracts on recorded events, one operator per harness action.  *)
(* An event ev is a record decoded from one JSON line (Appendix B of       *)
(* DESIGN.md).  Conventions of the harness:                                *)
(*   ev.<k>       = "ok" | "throw" | "foreign"   outcome of call k         *)
(*   ev.<k>_code  = error-code name of the BSplineException, or "none"     *)
(*   ev.<k>_v     = projected value when the outcome is "ok"               *)
(*   ev.big       = 1 iff some value did not fit TLC's integers            *)
(* Booleans are 0/1.  Index arguments are (i, top): top = 1 means 2^64-i.  *)
(***************************************************************************)
EXTENDS SplineAlg

Has(ev, k) == k \in DOMAIN ev
B(x) == x = 1
Sane(ev) == ~Has(ev, "harness_error") /\ ev.big = 0

Threw(ev, k) == ev[k] = "throw"                         \* the library's exception type
ThrewCode(ev, k, code) == ev[k] = "throw" /\ ev[k \o "_code"] = code
OkVal(ev, k, v) == ev[k] = "ok" /\ ev[k \o "_v"] = v
\* result v (None / NoneR = refused) is reported faithfully
IdxRes(ev, k, v) == IF v = None THEN Threw(ev, k) ELSE OkVal(ev, k, v)
RatRes(ev, k, v) == IF v = NoneR THEN Threw(ev, k) ELSE OkVal(ev, k, v)

SupOf(j) == Sup(j.g, j.s, j.e)

-----------------------------------------------------------------------------
\* grids and supports (C13, C11, C09)

GridNewOK(ev) ==
  IF GridValid(ev.pts)
  THEN /\ ev.out = "ok" /\ ev.res = ev.pts
       /\ ev.size = Len(ev.pts) /\ ev.empty = 0
       /\ ev.front = ev.pts[1] /\ ev.back = ev.pts[Len(ev.pts)] /\ ev.iter = ev.pts
       /\ B(ev.copy_eq) /\ B(ev.copy_shares)
  ELSE Threw(ev, "out") /\ ev.out_what = 1
       /\ (Len(ev.pts) < 2 => ev.out_code = "MISSING_DATA")

GridFindOK(ev) == IdxRes(ev, "find", GridFind(ev.g, ev.x))

GridAtOK(ev) ==
  LET inr == ev.top = 0 /\ ev.i < Len(ev.g)
  IN /\ RatRes(ev, "at", IF inr THEN ev.g[ev.i + 1] ELSE NoneR)
     /\ (inr => ev.sub_v = ev.g[ev.i + 1])

SupNewOK(ev) ==
  LET small == ev.stop = 0 /\ ev.etop = 0
      S == Sup(ev.g, ev.s, ev.e)
  IN /\ IF small /\ SupValid(S)
        THEN ev.out = "ok" /\ SupOf(ev.res) = S
        ELSE Threw(ev, "out")
     /\ SupOf(ev.mkempty) = SupEmptyOn(ev.g)
     /\ SupOf(ev.mkwhole) = SupWhole(ev.g)

SupReadOK(ev) ==
  LET S == SupOf(ev.a) IN
  /\ SupValid(S)
  /\ ev.size = SupSize(S) /\ B(ev.empty) = SupIsEmpty(S)
  /\ B(ev.hasiv) = SupHasIntervals(S) /\ ev.nint = SupNInt(S)
  /\ RatRes(ev, "front", SupFront(S)) /\ RatRes(ev, "back", SupBack(S))
  /\ ev.iter = SupIter(S) /\ ev.dist = SupSize(S) /\ ev.sub = SupIter(S)
  /\ B(ev.grid_eq) /\ B(ev.self_eq)

SupIdxOK(ev) ==
  LET S == SupOf(ev.a)
      small == ev.top = 0
      i == ev.i
  IN /\ ev.rel = (IF small THEN RelFromAbs(S, i) ELSE None)
     /\ ev.iv = (IF small THEN IvFromAbs(S, i) ELSE None)
     /\ IdxRes(ev, "abs", IF small THEN AbsFromRel(S, i) ELSE None)
     /\ RatRes(ev, "at", IF small THEN SupAt(S, i) ELSE NoneR)
     /\ (Has(ev, "sub_v") => small /\ ev.sub_v = SupAt(S, i))
     \* mutually inverse on contained indices
     /\ (ev.rel # None => AbsFromRel(S, ev.rel) = i)

SupBinOK(ev) ==
  LET a == SupOf(ev.a)
      b == SupOf(ev.b)
  IN /\ SupOf(ev.a_after) = a /\ SupOf(ev.b_after) = b         \* operands untouched
     /\ B(ev.same) = GridEq(a.g, b.g)
     /\ B(ev.eq) = SupEq(a, b) /\ B(ev.ne) = ~SupEq(a, b)
     /\ IF GridEq(a.g, b.g)
        THEN /\ ev.un = "ok" /\ UnionPost(a, b, SupOf(ev.un_v))
             /\ ev.in = "ok" /\ InterPost(a, b, SupOf(ev.in_v))
        ELSE /\ ThrewCode(ev, "un", "DIFFERING_GRIDS")
             /\ ThrewCode(ev, "in", "DIFFERING_GRIDS")

SupTriOK(ev) ==
  LET a == SupOf(ev.a)
      b == SupOf(ev.b)
      c == SupOf(ev.c)
      all == SupPts(a) \cup SupPts(b) \cup SupPts(c)
  IN /\ SupOf(ev.u_l) = SupOf(ev.u_r) /\ SupOf(ev.i_l) = SupOf(ev.i_r)
     /\ SupValid(SupOf(ev.u_l)) /\ SupPts(SupOf(ev.u_l)) = Hull(all)
     /\ SupValid(SupOf(ev.i_l)) /\ SupPts(SupOf(ev.i_l)) = SupPts(a) \cap SupPts(b) \cap SupPts(c)

EventOK_Sup(ev) ==
  CASE ev.op = "GridNew" -> GridNewOK(ev)
    [] ev.op = "GridFind" -> GridFindOK(ev)
    [] ev.op = "GridAt" -> GridAtOK(ev)
    [] ev.op = "SupNew" -> SupNewOK(ev)
    [] ev.op = "SupRead" -> SupReadOK(ev)
    [] ev.op = "SupIdx" -> SupIdxOK(ev)
    [] ev.op = "SupBin" -> SupBinOK(ev)
    [] ev.op = "SupTri" -> SupTriOK(ev)
    [] OTHER -> FALSE

EventOK(ev) == Sane(ev) /\ EventOK_Sup(ev)
=============================================================================
