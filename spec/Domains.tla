------------------------------- MODULE Domains -------------------------------
(***************************************************************************)
(* The named bounded input families the model-checking configurations     *)
(* enumerate (DESIGN.md section 2.5 / Appendix C).  TIER = "quick" or      *)
(* "thorough" widens them.                                                 *)
(***************************************************************************)
EXTENDS SplineAlg, TLC

CONSTANT TIER
Thorough == TIER = "thorough"

Q(s) == [i \in DOMAIN s |-> FromInt(s[i])]            \* integer tuple -> grid
\* named grids
E2 == Q(<<0, 2>>)
E3 == Q(<<0, 2, 4>>)
E4 == Q(<<0, 2, 4, 6>>)
E5 == Q(<<-4, -2, 0, 2, 4>>)
E6 == Q(<<0, 2, 4, 6, 8, 10>>)
N4 == Q(<<-7, -4, 0, 2>>)
N5 == Q(<<-8, -5, -4, 0, 6>>)
N6 == Q(<<-6, -4, 0, 2, 6, 8>>)
F5 == <<R(0, 1), R(1, 8), R(1, 2), R(1, 1), R(3, 1)>>
Z4 == Q(<<-3, -1, 1, 3>>)                 \* an interval centred exactly at the origin (midpoint 0)
Off3 == Q(<<20, 22, 26>>)
Off4 == Q(<<20, 22, 26, 27>>)

EvenGrid(n) == [i \in 1..n |-> FromInt(2 * (i - 1))]
\* a long grid (15 intervals of width 1, 2 or 3, one of them centred at the origin): everything that depends
\* on the NUMBER of intervals - the interval search, loops over intervals, capacities - and not only on the
\* relative placement of windows
L16 == Q(<<-11, -9, -8, -5, -4, -1, 1, 2, 4, 7, 8, 10, 12, 13, 15, 18>>)
IsLong(g) == Len(g) >= 12

\* size sweep: one grid for every number of intervals n (widths 1, 2, 3 in turn), so that thresholds in the
\* NUMBER of intervals (a search that changes strategy at 16, a blocked loop, 2^k + 1 intervals, a capacity)
\* are crossed one by one
SweepGrid(n) == [i \in 1..(n + 1) |-> FromInt(2 * (i - 1) - n + (IF i % 3 = 0 THEN 1 ELSE 0))]
SweepSizes == IF Thorough THEN (1..72) \cup {127, 128, 129, 130} ELSE (1..40) \cup {63, 64, 65, 66}
\* grid points, midpoints, one step outside
SweepProbes(g) == {g[i] : i \in 1..Len(g)} \cup {Mid(g, j) : j \in 0..(Len(g) - 2)}
                  \cup {RSub(g[1], ROne), RAdd(g[Len(g)], ROne)}

\* all valid windows of a grid with n points: empty plus every s < e <= n
ValidWindows(n) == {w \in ((0..n) \X (0..n)) : (w[1] = 0 /\ w[2] = 0) \/ (w[1] < w[2])}
\* on a long grid: the whole grid, a long prefix / suffix / inner window overlapping each other, two short
\* windows far inside, a point-like and the empty window
LongWindows(n) == {<<0, 0>>, <<0, n>>, <<0, (n \div 2) + 2>>, <<(n \div 2) - 2, n>>, <<3, n - 4>>, <<1, n - 1>>,
                   <<5, 6>>, <<n - 5, n - 2>>, <<4, 7>>}
WindowsOf(g) == IF IsLong(g) THEN LongWindows(Len(g)) ELSE ValidWindows(Len(g))
SupportsOn(g) == {Sup(g, w[1], w[2]) : w \in WindowsOf(g)}

\* coefficient variants for a window with n intervals and order o
Generic(n, o, v) == [r \in 1..n |-> [k \in 1..(o + 1) |-> FromInt(((7 * r + 3 * k + 2 * v) % 7) - 3)]]
UnitC(n, o, r0, k0) == [r \in 1..n |-> [k \in 1..(o + 1) |-> IF r = r0 /\ k = k0 THEN ROne ELSE RZero]]
ZeroC(n, o) == [r \in 1..n |-> PZeros(o + 1)]
\* zero in the odd intervals, fractional values elsewhere
HolesC(n, o) == [r \in 1..n |-> [k \in 1..(o + 1) |-> IF r % 2 = 1 THEN RZero ELSE R(2 * k - 3, 2)]]
\* pieces that do not join continuously (left and right value differ at every knot)
JumpC(n, o) == [r \in 1..n |-> [k \in 1..(o + 1) |-> IF k = 1 THEN FromInt(10 * r) ELSE FromInt(k - 1)]]

CoefVariants(n, o, rich) ==
  IF n = 0 THEN {<<>>}
  ELSE {Generic(n, o, 0), JumpC(n, o)}
       \cup (IF rich THEN {Generic(n, o, 1), HolesC(n, o), ZeroC(n, o)}
                          \cup {UnitC(n, o, r, k) : r \in 1..n, k \in 1..(o + 1)}
             ELSE {})

SplinesOn(g, orders, rich) ==
  UNION {UNION {{SplOn(S, o, c) : c \in CoefVariants(SupNInt(S), o, rich)} : o \in orders} : S \in SupportsOn(g)}


\* ways two grids can differ (C08)
InsertAfter(g, k, x) == [i \in 1..(Len(g) + 1) |-> IF i <= k THEN g[i] ELSE IF i = k + 1 THEN x ELSE g[i - 1]]
GridVariants(g) ==
  LET n == Len(g)
      \* point i moved: the first one down, the last one up, an inner one half way to its predecessor
      Moved(i) == IF i = 1 THEN [g EXCEPT ![1] = RSub(g[1], ROne)]
                  ELSE IF i = n THEN [g EXCEPT ![n] = RAdd(g[n], ROne)]
                  ELSE [g EXCEPT ![i] = RDiv(RAdd(g[i - 1], g[i]), RTwo)]
  IN {Moved(i) : i \in (IF n >= 12 THEN {1, 2, n \div 2, n - 1, n} ELSE 1..n)}   \* exactly one point moved, at every position (long grids: five positions)
  \cup {InsertAfter(g, 0, RSub(g[1], ROne))}                  \* extra point in front
  \cup {InsertAfter(g, n, RAdd(g[n], ROne))}                  \* extra point at the back
  \cup {InsertAfter(g, 1, RDiv(RAdd(g[1], g[2]), RTwo))}      \* extra point inside
  \cup (IF n >= 3 THEN {SubSeq(g, 1, n - 1), SubSeq(g, 2, n)} ELSE {})   \* prefix, suffix

\* abscissae probing every region of a grid: outside (near, far), every grid
\* point, midpoints and quarter points of every interval
Probes(g) ==
  LET n == Len(g) IN
  {g[i] : i \in 1..n}
  \cup {RSub(g[1], ROne), RSub(g[1], FromInt(100)), RAdd(g[n], ROne), RAdd(g[n], FromInt(100))}
  \cup {Mid(g, j) : j \in 0..(n - 2)}
  \cup {RAdd(g[j + 1], RDiv(Half(g, j), RTwo)) : j \in 0..(n - 2)}
  \cup {RSub(g[j + 2], RDiv(Half(g, j), FromInt(4))) : j \in 0..(n - 2)}

Scalars == {RZero, ROne, FromInt(-1), RTwo, R(1, 2), R(-3, 4)}
NonZeroScalars == Scalars \ {RZero}
=============================================================================
