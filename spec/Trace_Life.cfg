SPECIFICATION Spec
CONSTANTS
  WBITS = 5
  Bug_AtWraps = FALSE
  Bug_IntervalWraps = FALSE
  Bug_GridScanGE = FALSE
  Bug_SplineOpLookupByPoint = FALSE
  Bug_IntReciprocal = FALSE
  PROP = "ALL"
CHECK_DEADLOCK FALSE
