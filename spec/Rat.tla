-------------------------------- MODULE Rat --------------------------------
(***************************************************************************)
(* Exact rationals for the BSplinebasis specification.                     *)
(*                                                                         *)
(* A rational is a normalised pair <<n, d>> with d > 0 and gcd(|n|,d) = 1, *)
(* so that equality of rationals is structural equality of tuples.  TLC    *)
(* integers are 32 bit and an overflow is a TLC error, not a wrap; the     *)
(* operators below therefore cancel before they multiply (lcm for the sum, *)
(* cross-cancellation for the product).                                    *)
(*                                                                         *)
(* This module is the specification-side twin of the scalar signature the  *)
(* library documents (Spline.h:1-19): FromInt, + - * /, unary minus and    *)
(* the six comparisons.  Nothing else is used by any other module (C19).   *)
(***************************************************************************)
EXTENDS Integers, Sequences

Abs(x) == IF x < 0 THEN -x ELSE x

RECURSIVE GCD(_, _)
GCD(a, b) == IF b = 0 THEN a ELSE GCD(b, a % b)

Sign(x) == IF x < 0 THEN -1 ELSE IF x > 0 THEN 1 ELSE 0

\* normalise an arbitrary pair (d # 0)
RNorm(n, d) ==
  IF n = 0 THEN <<0, 1>>
  ELSE LET g == GCD(Abs(n), Abs(d))
           s == IF d < 0 THEN -1 ELSE 1
       IN <<s * (n \div g), s * (d \div g)>>

IsRat(r) == /\ DOMAIN r = 1..2 /\ r[1] \in Int /\ r[2] \in Nat \ {0}
            /\ r = RNorm(r[1], r[2])

FromInt(i) == <<i, 1>>
RZero == <<0, 1>>
ROne  == <<1, 1>>
RTwo  == <<2, 1>>
R(n, d) == RNorm(n, d)

RNeg(a) == <<-a[1], a[2]>>

RAdd(a, b) ==
  IF a[2] = b[2] THEN RNorm(a[1] + b[1], a[2])
  ELSE LET g == GCD(a[2], b[2])
           da == a[2] \div g
           db == b[2] \div g
       IN RNorm(a[1] * db + b[1] * da, da * b[2])

RSub(a, b) == RAdd(a, RNeg(b))

RMul(a, b) ==
  IF a[1] = 0 \/ b[1] = 0 THEN RZero
  ELSE LET g1 == GCD(Abs(a[1]), b[2])
           g2 == GCD(Abs(b[1]), a[2])
       IN <<(a[1] \div g1) * (b[1] \div g2), (a[2] \div g2) * (b[2] \div g1)>>

RInv(a) == IF a[1] < 0 THEN <<-a[2], -a[1]>> ELSE <<a[2], a[1]>>   \* a # 0
RDiv(a, b) == RMul(a, RInv(b))

RIsZero(a) == a[1] = 0
RSign(a) == Sign(a[1])
RLt(a, b) == RSign(RSub(a, b)) < 0
RLe(a, b) == RSign(RSub(a, b)) <= 0
RGt(a, b) == RLt(b, a)
RGe(a, b) == RLe(b, a)
REq(a, b) == a = b
RAbs(a) == <<Abs(a[1]), a[2]>>
RMin(a, b) == IF RLt(b, a) THEN b ELSE a
RMax(a, b) == IF RLt(a, b) THEN b ELSE a

RECURSIVE RPow(_, _)
RPow(a, k) == IF k = 0 THEN ROne ELSE RMul(a, RPow(a, k - 1))

\* sum / product of a sequence of rationals
RECURSIVE RSumSeq(_)
RSumSeq(s) == IF s = <<>> THEN RZero ELSE RAdd(Head(s), RSumSeq(Tail(s)))

\* small integer helpers used all over the specification
Min(a, b) == IF a < b THEN a ELSE b
Max(a, b) == IF a < b THEN b ELSE a
RECURSIVE Fact(_)
Fact(n) == IF n <= 1 THEN 1 ELSE n * Fact(n - 1)
\* (i+n)!/i!  =  (i+1)(i+2)...(i+n)
RECURSIVE Falling(_, _)
Falling(i, n) == IF n = 0 THEN 1 ELSE (i + n) * Falling(i, n - 1)
RECURSIVE Binom(_, _)
Binom(n, k) == IF k < 0 \/ k > n THEN 0
               ELSE IF k = 0 \/ k = n THEN 1
               ELSE Binom(n - 1, k - 1) + Binom(n - 1, k)
=============================================================================
