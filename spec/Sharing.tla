------------------------------- MODULE Sharing -------------------------------
(***************************************************************************)
(* Concurrent read-only use (C18).                                         *)
(*                                                                         *)
(* What the library shares between threads:                                *)
(*   - grid storage blocks: immutable after construction, reference        *)
(*     counted (shared_ptr<const vector<T>>, Grid.h:30); every copy of a   *)
(*     grid/support/spline acquires a handle, every destruction releases   *)
(*     one, the last release frees the block;                              *)
(*   - const objects read by several threads (no mutable members);         *)
(*   - one function-local static (Spline::isZero's ZERO, Spline.h:256),    *)
(*     initialised on first use under the compiler's guard.                *)
(* Everything else a call touches is local to the calling thread.          *)
(*                                                                         *)
(* The model runs NT threads, each with a script of calls at micro-step    *)
(* granularity:                                                            *)
(*   "copy"   acquire a handle on the shared block   (count + 1)           *)
(*   "read"   read the block through a handle / a shared const object      *)
(*   "drop"   release a handle (count - 1; the releaser that reaches 0     *)
(*            frees the block)                                             *)
(*   "zero"   use the guarded static                                       *)
(*   "eval"   compute a result in thread-local scratch storage             *)
(* The main thread owns one handle from the start and releases it after    *)
(* its own script (scenario "handoff": possibly while workers still run).  *)
(*                                                                         *)
(* Negative controls (must be REJECTED by TLC, showing the properties are  *)
(* not vacuous):                                                           *)
(*   AtomicCount = FALSE    count updated by separate load and store       *)
(*   GuardedStatic = FALSE  static initialised without a guard             *)
(*   LocalScratch = FALSE   "eval" uses one scratch buffer for all threads *)
(***************************************************************************)
EXTENDS Integers, Sequences, FiniteSets, TLC

CONSTANTS NT,             \* number of worker threads
          Scripts,        \* set of scripts a worker may run
          AtomicCount, GuardedStatic, LocalScratch

Threads == 0..NT          \* 0 is the main thread
Workers == 1..NT

VARIABLES
  script,     \* script[t]: remaining calls of thread t
  pc,         \* pc[t]: micro-step inside the current call ("idle", "ld", "st", "chk", "init", "w", "r")
  tmp,        \* tmp[t]: value loaded by a non-atomic count update
  held,       \* held[t]: handles thread t owns
  rc,         \* reference count of the block
  freed,      \* number of times the block was freed
  zero,       \* state of the static: "no" | "running" | "done"
  scratch,    \* the shared scratch buffer (negative control only)
  results,    \* results[t]: sequence of values the thread obtained
  bad         \* a set of observed safety violations (strings)

vars == <<script, pc, tmp, held, rc, freed, zero, scratch, results, bad>>

Value(t, k) == t * 100 + k     \* what thread t computes in its k-th eval (a pure function of its inputs)

Init ==
  /\ script \in [Threads -> Scripts]
  /\ pc = [t \in Threads |-> "idle"]
  /\ tmp = [t \in Threads |-> 0]
  /\ held = [t \in Threads |-> IF t = 0 THEN 1 ELSE 0]
  /\ rc = 1
  /\ freed = 0
  /\ zero = "no"
  /\ scratch = 0
  /\ results = [t \in Threads |-> <<>>]
  /\ bad = {}

Cur(t) == Head(script[t])
Done(t) == script[t] = <<>> /\ pc[t] = "idle"
Finish(t) == script' = [script EXCEPT ![t] = Tail(script[t])] /\ pc' = [pc EXCEPT ![t] = "idle"]

\* a worker may only acquire a handle while somebody guarantees the block is
\* alive: it copies from an object it already holds or from the main thread's
\* object while main still holds it (the library's usage contract: the source
\* of a copy outlives the copy operation)
CanCopy(t) == held[t] > 0 \/ held[0] > 0

Free == freed' = freed + 1

\* ------------------------------------------------------------------ copy
CopyAtomic(t) ==
  /\ pc[t] = "idle" /\ script[t] # <<>> /\ Cur(t) = "copy" /\ AtomicCount /\ CanCopy(t)
  /\ rc' = rc + 1 /\ held' = [held EXCEPT ![t] = @ + 1]
  /\ bad' = IF freed > 0 THEN bad \cup {"copy of freed block"} ELSE bad
  /\ Finish(t) /\ UNCHANGED <<tmp, freed, zero, scratch, results>>
CopyLoad(t) ==
  /\ pc[t] = "idle" /\ script[t] # <<>> /\ Cur(t) = "copy" /\ ~AtomicCount /\ CanCopy(t)
  /\ tmp' = [tmp EXCEPT ![t] = rc] /\ pc' = [pc EXCEPT ![t] = "st"]
  /\ UNCHANGED <<script, held, rc, freed, zero, scratch, results, bad>>
CopyStore(t) ==
  /\ pc[t] = "st" /\ Cur(t) = "copy"
  /\ rc' = tmp[t] + 1 /\ held' = [held EXCEPT ![t] = @ + 1]
  /\ Finish(t) /\ UNCHANGED <<tmp, freed, zero, scratch, results, bad>>

\* ------------------------------------------------------------------ drop
DropAtomic(t) ==
  /\ pc[t] = "idle" /\ script[t] # <<>> /\ Cur(t) = "drop" /\ AtomicCount /\ held[t] > 0
  /\ rc' = rc - 1 /\ held' = [held EXCEPT ![t] = @ - 1]
  /\ IF rc - 1 = 0 THEN Free ELSE UNCHANGED freed
  /\ Finish(t) /\ UNCHANGED <<tmp, zero, scratch, results, bad>>
DropLoad(t) ==
  /\ pc[t] = "idle" /\ script[t] # <<>> /\ Cur(t) = "drop" /\ ~AtomicCount /\ held[t] > 0
  /\ tmp' = [tmp EXCEPT ![t] = rc] /\ pc' = [pc EXCEPT ![t] = "st"]
  /\ UNCHANGED <<script, held, rc, freed, zero, scratch, results, bad>>
DropStore(t) ==
  /\ pc[t] = "st" /\ Cur(t) = "drop"
  /\ rc' = tmp[t] - 1 /\ held' = [held EXCEPT ![t] = @ - 1]
  /\ IF tmp[t] - 1 = 0 THEN Free ELSE UNCHANGED freed
  /\ Finish(t) /\ UNCHANGED <<tmp, zero, scratch, results, bad>>
\* a drop without a handle is skipped (scripts are arbitrary)
DropSkip(t) ==
  /\ pc[t] = "idle" /\ script[t] # <<>> /\ Cur(t) = "drop" /\ held[t] = 0
  /\ Finish(t) /\ UNCHANGED <<tmp, held, rc, freed, zero, scratch, results, bad>>
CopySkip(t) ==
  /\ pc[t] = "idle" /\ script[t] # <<>> /\ Cur(t) = "copy" /\ ~CanCopy(t)
  /\ Finish(t) /\ UNCHANGED <<tmp, held, rc, freed, zero, scratch, results, bad>>

\* ------------------------------------------------------------------ read
\* reading through an own handle, or (workers) the main thread's const object
Read(t) ==
  /\ pc[t] = "idle" /\ script[t] # <<>> /\ Cur(t) = "read" /\ (held[t] > 0 \/ held[0] > 0)
  /\ bad' = IF freed > 0 THEN bad \cup {"read of freed storage"} ELSE bad
  /\ results' = [results EXCEPT ![t] = Append(@, [k |-> "block", v |-> 0])]
  /\ Finish(t) /\ UNCHANGED <<tmp, held, rc, freed, zero, scratch>>
ReadSkip(t) ==
  /\ pc[t] = "idle" /\ script[t] # <<>> /\ Cur(t) = "read" /\ ~(held[t] > 0 \/ held[0] > 0)
  /\ Finish(t) /\ UNCHANGED <<tmp, held, rc, freed, zero, scratch, results, bad>>

\* ------------------------------------------------------------------ guarded static
ZeroCheck(t) ==
  /\ pc[t] = "idle" /\ script[t] # <<>> /\ Cur(t) = "zero"
  /\ IF zero = "done" THEN pc' = [pc EXCEPT ![t] = "r"] /\ UNCHANGED zero
     ELSE IF zero = "no" THEN pc' = [pc EXCEPT ![t] = "init"] /\ zero' = (IF GuardedStatic THEN "running" ELSE "no")
     ELSE (IF GuardedStatic THEN UNCHANGED <<pc, zero>>                    \* wait for the initialising thread
           ELSE pc' = [pc EXCEPT ![t] = "r"] /\ UNCHANGED zero)
  /\ UNCHANGED <<script, tmp, held, rc, freed, scratch, results, bad>>
ZeroInit(t) ==
  /\ pc[t] = "init" /\ zero' = "done" /\ pc' = [pc EXCEPT ![t] = "r"]
  /\ UNCHANGED <<script, tmp, held, rc, freed, scratch, results, bad>>
\* without a guard a second thread may pass the check while the first one is
\* still initialising (flag not yet set) and read the object too early
ZeroRace(t) ==
  /\ ~GuardedStatic /\ pc[t] = "idle" /\ script[t] # <<>> /\ Cur(t) = "zero"
  /\ \E u \in Threads : u # t /\ pc[u] = "init"
  /\ pc' = [pc EXCEPT ![t] = "r"]
  /\ UNCHANGED <<script, tmp, held, rc, freed, zero, scratch, results, bad>>
ZeroRead(t) ==
  /\ pc[t] = "r" /\ Cur(t) = "zero"
  /\ bad' = IF zero # "done" THEN bad \cup {"static read before its initialisation finished"} ELSE bad
  /\ results' = [results EXCEPT ![t] = Append(@, [k |-> "zero", v |-> 0])]
  /\ Finish(t) /\ UNCHANGED <<tmp, held, rc, freed, zero, scratch>>

\* ------------------------------------------------------------------ eval
EvalLocal(t) ==
  /\ pc[t] = "idle" /\ script[t] # <<>> /\ Cur(t) = "eval" /\ LocalScratch
  /\ results' = [results EXCEPT ![t] = Append(@, [k |-> "val", v |-> Value(t, Len(@))])]
  /\ Finish(t) /\ UNCHANGED <<tmp, held, rc, freed, zero, scratch, bad>>
EvalWrite(t) ==
  /\ pc[t] = "idle" /\ script[t] # <<>> /\ Cur(t) = "eval" /\ ~LocalScratch
  /\ scratch' = Value(t, Len(results[t])) /\ pc' = [pc EXCEPT ![t] = "w"]
  /\ UNCHANGED <<script, tmp, held, rc, freed, zero, results, bad>>
EvalReadBack(t) ==
  /\ pc[t] = "w" /\ Cur(t) = "eval"
  /\ results' = [results EXCEPT ![t] = Append(@, [k |-> "val", v |-> scratch])]
  /\ Finish(t) /\ UNCHANGED <<tmp, held, rc, freed, zero, scratch, bad>>

\* the main thread releases its handle when its script is finished
MainRelease ==
  /\ Done(0) /\ held[0] > 0
  /\ script' = [script EXCEPT ![0] = <<"drop">>]
  /\ UNCHANGED <<pc, tmp, held, rc, freed, zero, scratch, results, bad>>

Step(t) == \/ CopyAtomic(t) \/ CopyLoad(t) \/ CopyStore(t) \/ CopySkip(t)
           \/ DropAtomic(t) \/ DropLoad(t) \/ DropStore(t) \/ DropSkip(t)
           \/ Read(t) \/ ReadSkip(t)
           \/ ZeroCheck(t) \/ ZeroInit(t) \/ ZeroRace(t) \/ ZeroRead(t)
           \/ EvalLocal(t) \/ EvalWrite(t) \/ EvalReadBack(t)
Next == (\E t \in Threads : Step(t)) \/ MainRelease
Spec == Init /\ [][Next]_vars
FairSpec == Spec /\ \A t \in Threads : WF_vars(Step(t)) /\ WF_vars(MainRelease)

-----------------------------------------------------------------------------
\* every value a thread computes is the one it computes when it runs alone
\* (a pure function of the thread's own inputs and position)
AllDone == \A t \in Threads : Done(t) /\ held[t] = 0

TypeOK == rc \in Int /\ freed \in Nat /\ zero \in {"no", "running", "done"}
NoUseAfterFree == bad = {}
RECURSIVE SumHeld(_)
SumHeld(t) == IF t < 0 THEN 0 ELSE held[t] + SumHeld(t - 1)
CountMatchesHandles == (\A t \in Threads : pc[t] # "st") => rc = SumHeld(NT)
FreedAtMostOnce == freed <= 1
FreedOnlyWithoutHandles == freed > 0 => \A t \in Threads : held[t] = 0
\* at quiescence: freed exactly once, every thread's results are the sequential ones
QuiescentOK == AllDone => freed = 1 /\ rc = 0
Deterministic == \A t \in Threads : \A i \in DOMAIN results[t] :
                    results[t][i].k = "val" => results[t][i].v = Value(t, i - 1)
Termination == <>AllDone
=============================================================================
