-------------------------------- MODULE Forms --------------------------------
(***************************************************************************)
(* Linear and bilinear forms (integration/LinearForm.h, BilinearForm.h)    *)
(* and the contract of numerical integration (integration/numerical.h).    *)
(***************************************************************************)
EXTENDS Ops

-----------------------------------------------------------------------------
\* Level A: exact integrals of the transformed pieces over common intervals

Common(a, b) == {j \in Ivs(a.g) : HasIv(a, j) /\ HasIv(b, j)}

\* sum of f(j) over the interval indices j in S (S a subset of 0..n-1)
SumOverIvs(n, S, f(_)) == RSumSeq([j1 \in 1..n |-> IF (j1 - 1) \in S THEN f(j1 - 1) ELSE RZero])

BilinearVal(o1, o2, a, b, fs) ==
  LET term(j) == PIntSym(PMul(DenApply(o1, Piece(a, j), a.g, j, fs),
                              DenApply(o2, Piece(b, j), a.g, j, fs)), Half(a.g, j))
  IN SumOverIvs(NIv(a.g), Common(a, b), term)

LinearVal(o, a, fs) ==
  LET term(j) == PIntSym(DenApply(o, Piece(a, j), a.g, j, fs), Half(a.g, j))
  IN SumOverIvs(NIv(a.g), {j \in Ivs(a.g) : HasIv(a, j)}, term)

\* integral of m1 * w * m2 over the common intervals, w a polynomial in x
\* given by its coefficients about the origin (C17)
WeightLocal(w, xm) ==              \* w(x) = w(u + xm) as a polynomial in u
  PShift(w, xm)
WeightedVal(w, a, b) ==
  LET term(j) == PIntSym(PMul(PMul(Piece(a, j), WeightLocal(w, Mid(a.g, j))), Piece(b, j)), Half(a.g, j))
  IN SumOverIvs(NIv(a.g), Common(a, b), term)

-----------------------------------------------------------------------------
\* Level I: the kernels

\* BilinearForm::evaluateInterval: collect even powers, Horner in h^2, factor 2h
KernelBF(ta, tb, h) ==
  LET sa == Len(ta)
      sb == Len(tb)
      n == (sa + sb) \div 2
      \* coefficients[(i+j)/2] += a[i]*b[j]  for j = i%2, i%2+2, ... (0-based)
      coef == [m \in 1..n |->
                 RSumSeq([i \in 1..sa |->
                    LET j0 == 2 * (m - 1) - (i - 1)          \* 0-based j with (i+j)/2 = m-1, same parity as i
                    IN IF j0 >= 0 /\ j0 < sb THEN RMul(ta[i], tb[j0 + 1]) ELSE RZero])]
      h2 == RMul(h, h)
      RECURSIVE horner(_)
      horner(i) ==                 \* i 1-based index into coef, from n down to 1
        IF i = n THEN RDiv(coef[n], FromInt(2 * (n - 1) + 1))
        ELSE RAdd(RMul(horner(i + 1), h2), RDiv(coef[i], FromInt(2 * (i - 1) + 1)))
  IN RMul(RMul(RTwo, h), horner(1))

\* LinearForm::evaluateInterval: largest even index, Horner in steps of two
KernelLF(t, h) ==
  LET size == Len(t)
      endIndex == size - (IF size % 2 = 0 THEN 2 ELSE 1)           \* 0-based
      h2 == RMul(h, h)
      RECURSIVE horner(_)
      horner(i) ==                 \* 0-based even index
        IF i = endIndex THEN RDiv(t[endIndex + 1], FromInt(endIndex + 1))
        ELSE RAdd(RMul(h2, horner(i + 2)), RDiv(t[i + 1], FromInt(i + 1)))
  IN RMul(RMul(RTwo, h), horner(0))

BilinearI(o1, o2, a, b, fs) ==
  LET X == InterI(SplSup(a), SplSup(b))
      n == SupNInt(X)
      term(i) ==
        LET abs == (i - 1) + X.s
            ra == IvFromAbs(SplSup(a), abs)
            rb == IvFromAbs(SplSup(b), abs)
            h == RDiv(RSub(a.g[a.s + ra + 2], a.g[a.s + ra + 1]), RTwo)
        IN KernelBF(TransformI(o1, a.c[ra + 1], a.g, abs, fs), TransformI(o2, b.c[rb + 1], a.g, abs, fs), h)
  IN RSumSeq([i \in 1..n |-> term(i)])

LinearI(o, a, fs) ==
  LET n == SupNInt(SplSup(a))
      term(i) ==
        LET abs == (i - 1) + a.s
            h == RDiv(RSub(a.g[a.s + i + 1], a.g[a.s + i]), RTwo)
        IN KernelLF(TransformI(o, a.c[i], a.g, abs, fs), h)
  IN RSumSeq([i \in 1..n |-> term(i)])
=============================================================================
