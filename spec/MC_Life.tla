------------------------------- MODULE MC_Life -------------------------------
(***************************************************************************)
(* Generation of histories for the object-pool state machine (C10, C14,    *)
(* sequential parts of C03 and C08).                                       *)
(*   pool : slot -> abstract object      hist : the commands issued so far *)
(* MODE = "sim": run with  tlc -simulate -depth DEPTH+1 -seed VERIF_SEED ; *)
(*               every behaviour is one history, the next command is       *)
(*               drawn with RandomElement (kind first, then arguments).    *)
(* MODE = "bfs": breadth-first, every history of length <= DEPTH over the  *)
(*               (smaller) domain is explored.                             *)
(* The invariant Emit writes a finished history as one JSON line.  TLC     *)
(* also checks PoolValid and the frame condition on the model itself.      *)
(***************************************************************************)
EXTENDS Lifecycle, Domains, Json, CSV, IOUtils

CONSTANTS NS, DEPTH, MODE
VARIABLES pool, hist
vars == <<pool, hist>>

OutFile == IF "GEN_OUT" \in DOMAIN IOEnv THEN IOEnv.GEN_OUT ELSE "/dev/null"
Sim == MODE \in {"sim", "simbig"}
Big == MODE = "simbig"              \* the two equal grids are the long grid L16 (15 intervals): size-dependent paths inside histories

Slots == 1..NS
Work == IF Sim THEN 4..NS ELSE 4..5 \* slots 1..3 keep the three grids
GA == IF Big THEN L16 ELSE E4
GB == Q(<<0, 2, 7>>)                \* logically different, shorter grid

Gs(p) == {i \in Slots : p[i].k = "grid"}
Ss(p) == {i \in Slots : p[i].k = "sup"}
Ps(p) == {i \in Slots : p[i].k = "spl"}
Live(p) == {i \in Slots : p[i].k # "null"}
LowP(p) == {i \in Ps(p) : p[i].o <= 3}

\* a window that does not fit the chosen grid is a refused construction
Wins == IF Big THEN LongWindows(16) \cup {<<0, 3>>, <<1, 4>>, <<0, 4>>, <<2, 4>>, <<1, 3>>} ELSE ValidWindows(4)
BadWins == {<<3, 2>>, <<0, 5>>, <<4, 4>>, <<2, 2>>}
Coefs(n, o) == IF n = 0 THEN {<<>>} ELSE {Generic(n, o, 0), Generic(n, o, 1), HolesC(n, o)}
Ks == IF Sim THEN {RTwo, FromInt(-1), R(1, 2)} ELSE {RTwo}
NIntOf(w) == IF w[2] - w[1] >= 2 THEN w[2] - w[1] - 1 ELSE 0

\* commands by kind
CGridNew(p) == {[op |-> "GridNew", dst |-> d, pts |-> g] : d \in Work, g \in {GA, GB, Q(<<0, 2, 2>>), Q(<<1>>)}}
CSupNew(p) == {[op |-> "SupNew", dst |-> d, grid |-> g, s |-> w[1], e |-> w[2]] : d \in Work, g \in Gs(p),
                 w \in IF Sim THEN Wins \cup BadWins ELSE {<<0, 4>>, <<1, 3>>, <<3, 2>>}}
CSplNew(p) ==
  IF ~Sim THEN {[op |-> "SplNew", dst |-> d, grid |-> g, s |-> w[1], e |-> w[2], o |-> 1, c |-> IF NIntOf(w) = 0 THEN <<>> ELSE Generic(NIntOf(w), 1, 1)] :
                  d \in Work, g \in Gs(p), w \in {<<0, 4>>, <<2, 4>>, <<0, 0>>, <<0, 5>>}} ELSE
  UNION {{[op |-> "SplNew", dst |-> d, grid |-> g, s |-> wo[1][1], e |-> wo[1][2], o |-> wo[2], c |-> c] :
            d \in Work, g \in Gs(p), c \in Coefs(NIntOf(wo[1]), wo[2])} : wo \in Wins \X (0..2)}
  \cup {[op |-> "SplNew", dst |-> d, grid |-> g, s |-> w[1], e |-> w[2], o |-> 1, c |-> Generic(NIntOf(w) + 1, 1, 0)] :
          d \in Work, g \in Gs(p), w \in {<<0, 3>>, <<1, 2>>, <<3, 2>>}}
CCopy(p) == {c \in {[op |-> "Copy", dst |-> d, src |-> s] : d \in Work, s \in Live(p)} : c.dst # c.src}
CMove(p) == {c \in {[op |-> "Move", dst |-> d, src |-> s] : d \in Work, s \in Work \cap (Ss(p) \cup Ps(p))} : c.dst # c.src}
SameType(p, a, b) == p[a].k = p[b].k /\ (p[a].k = "spl" => p[a].o = p[b].o)
\* includes self-assignment (dst = src)
CCopyAssign(p) == {c \in {[op |-> "CopyAssign", dst |-> d, src |-> s] : d \in Work \cap Live(p), s \in Live(p)} : SameType(p, c.dst, c.src)}
\* includes x = std::move(x) (dst = src) in simulated histories
CMoveAssign(p) == {c \in {[op |-> "MoveAssign", dst |-> d, src |-> s] : d \in Work \cap (Ss(p) \cup Ps(p)), s \in Work \cap (Ss(p) \cup Ps(p))} :
                     (Sim \/ c.dst # c.src) /\ SameType(p, c.dst, c.src)}
CAssignLower(p) == {c \in {[op |-> "AssignLower", dst |-> d, src |-> s] : d \in Work \cap Ps(p), s \in LowP(p)} : p[c.src].o < p[c.dst].o}
\* rv: an operand handed over as an rvalue (see Lifecycle!RvSlots); only slots of the working set are given away
Rv1 == IF Sim THEN {0, 1} ELSE {0}
Rv2 == IF Sim THEN {0, 1, 2} ELSE {0}
RvFits(c, slot) == c.rv = 0 \/ slot \in Work
CInPlace(p) == {c \in {[op |-> o, dst |-> d, src |-> s, rv |-> r] : o \in {"AddAssign", "SubAssign"}, d \in Work \cap Ps(p), s \in LowP(p), r \in Rv1} :
                  p[c.src].o <= p[c.dst].o /\ (c.rv = 0 \/ (c.src \in Work /\ c.src # c.dst))}
CScaleAssign(p) == {[op |-> o, dst |-> d, kk |-> k] : o \in {"ScaleAssign", "DivAssign"}, d \in Work \cap Ps(p), k \in Ks}
CBin(p) == {c \in {[op |-> o, dst |-> d, a |-> a, b |-> b, rv |-> r] : o \in {"Add", "Sub", "Mul"}, d \in Work, a \in LowP(p), b \in LowP(p), r \in Rv2} :
              /\ (c.op # "Mul" \/ p[c.a].o + p[c.b].o <= 6)
              /\ RvFits(c, IF c.rv = 1 THEN c.a ELSE c.b)}
\* the scalar spellings: a * k, std::move(a) * k, k * std::move(a), std::move(a) / (1/k); BFS keeps std::move(a) * k
CUn(p) == {c \in {[op |-> "Scale", dst |-> d, a |-> a, kk |-> k, rv |-> r] : d \in Work, a \in Ps(p), k \in Ks, r \in (IF Sim THEN 0..3 ELSE {0, 1})} : RvFits(c, c.a)}
          \cup {c \in {[op |-> "Neg", dst |-> d, a |-> a, rv |-> r] : d \in Work, a \in Ps(p), r \in Rv1} : RvFits(c, c.a)}
CApply(p) == {c \in {[op |-> "Apply", dst |-> d, a |-> a, which |-> w, rv |-> r] : d \in Work, a \in Ps(p), w \in {"Id", "Dx1", "Dx2", "X1"}, r \in Rv1} :
                (c.which # "X1" \/ p[c.a].o <= 5) /\ RvFits(c, c.a)}
CSupBin(p) == {c \in {[op |-> o, dst |-> d, a |-> a, b |-> b, rv |-> r] : o \in {"Union", "Inter"}, d \in Work, a \in Ss(p), b \in Ss(p), r \in Rv2} :
                 RvFits(c, IF c.rv = 1 THEN c.a ELSE c.b)}
CGet(p) == {[op |-> "GetSupport", dst |-> d, src |-> s] : d \in Work, s \in Ps(p)}
           \cup {[op |-> "GetGrid", dst |-> d, src |-> s] : d \in Work, s \in Live(p)}
CDestroy(p) == {[op |-> "Destroy", dst |-> d] : d \in Work \cap Live(p)}
\* linearCombination over two or three splines of one order; scalar products / forms (read-only)
CLin(p) == UNION {{[op |-> "LinComb", dst |-> d, srcs |-> ss, cs |-> SubSeq(<<RTwo, R(-1, 2), ROne>>, 1, Len(ss))] :
                     d \in Work, ss \in {<<a, b>> : a \in {x \in LowP(p) : p[x].o = o}, b \in {x \in LowP(p) : p[x].o = o}}
                                       \cup (IF Sim THEN {<<a, b, a>> : a \in {x \in LowP(p) : p[x].o = o}, b \in {x \in LowP(p) : p[x].o = o}} ELSE {})} :
                  o \in 0..3}
CBF(p) == {[op |-> "BF", a |-> a, b |-> b, which |-> w] : a \in LowP(p), b \in LowP(p), w \in (IF Sim THEN {"sp", "dx", "xd"} ELSE {"xd"})}
CEval(p) == {[op |-> "Eval", src |-> s, x |-> x] : s \in Ps(p),
               x \in IF Sim THEN {FromInt(0), FromInt(2), FromInt(3), FromInt(6), FromInt(9), R(-1, 2)} ELSE {FromInt(3)}}

Kinds == <<"GridNew", "SupNew", "SplNew", "Copy", "Move", "CopyAssign", "MoveAssign", "AssignLower", "InPlace", "ScaleAssign",
           "Bin", "Un", "Apply", "SupBin", "Get", "Destroy", "Eval", "InPlace", "Bin", "Move", "CopyAssign", "MoveAssign", "AssignLower",
           "Lin", "BF">>
OfKind(p, kd) ==
  CASE kd = "GridNew" -> CGridNew(p) [] kd = "SupNew" -> CSupNew(p) [] kd = "SplNew" -> CSplNew(p)
    [] kd = "Copy" -> CCopy(p) [] kd = "Move" -> CMove(p) [] kd = "CopyAssign" -> CCopyAssign(p)
    [] kd = "MoveAssign" -> CMoveAssign(p) [] kd = "AssignLower" -> CAssignLower(p) [] kd = "InPlace" -> CInPlace(p)
    [] kd = "ScaleAssign" -> CScaleAssign(p) [] kd = "Bin" -> CBin(p) [] kd = "Un" -> CUn(p) [] kd = "Apply" -> CApply(p)
    [] kd = "Lin" -> CLin(p) [] kd = "BF" -> CBF(p)
    [] kd = "SupBin" -> CSupBin(p) [] kd = "Get" -> CGet(p) [] kd = "Destroy" -> CDestroy(p) [] kd = "Eval" -> CEval(p)
AllCmds(p) == UNION {OfKind(p, Kinds[i]) : i \in DOMAIN Kinds}

\* bounded magnitudes: a history is cut before numbers leave TLC's integers
RECURSIVE MaxAbsSeq(_)
MaxAbsSeq(t) == IF t = <<>> THEN 0 ELSE Max(Max(Abs(Head(t)[1]), Head(t)[2]), MaxAbsSeq(Tail(t)))
Mag(v) == IF v.k # "spl" \/ v.c = <<>> THEN 0
          ELSE SetMax({MaxAbsSeq(v.c[r]) : r \in DOMAIN v.c})
Small(p) == \A i \in Slots : Mag(p[i]) < 20000

RECURSIVE Run(_, _)
Run(p, cmds) == IF cmds = <<>> THEN p ELSE Run(Eff(p, Head(cmds)), Tail(cmds))

Setup(w4, o4, w5, o5, w6, o6) ==
  <<[op |-> "GridNew", dst |-> 1, pts |-> GA], [op |-> "GridNew", dst |-> 2, pts |-> GA], [op |-> "GridNew", dst |-> 3, pts |-> GB],
    [op |-> "SplNew", dst |-> 4, grid |-> 1, s |-> w4[1], e |-> w4[2], o |-> o4, c |-> IF NIntOf(w4) = 0 THEN <<>> ELSE Generic(NIntOf(w4), o4, 0)],
    [op |-> "SplNew", dst |-> 5, grid |-> 2, s |-> w5[1], e |-> w5[2], o |-> o5, c |-> IF NIntOf(w5) = 0 THEN <<>> ELSE Generic(NIntOf(w5), o5, 1)],
    [op |-> "SplNew", dst |-> 6, grid |-> 3, s |-> w6[1], e |-> w6[2], o |-> o6, c |-> IF NIntOf(w6) = 0 THEN <<>> ELSE Generic(NIntOf(w6), o6, 0)]>>
Empty == [i \in Slots |-> Null]
SetupLen == 6

Init == \E w4 \in (IF Big THEN {<<0, 16>>, <<3, 12>>, <<0, 4>>} ELSE IF Sim THEN {<<0, 4>>, <<0, 3>>, <<1, 4>>} ELSE {<<0, 3>>}),
           w5 \in (IF Big THEN {<<6, 16>>, <<0, 16>>, <<0, 0>>, <<2, 4>>, <<15, 16>>} ELSE IF Sim THEN {<<1, 3>>, <<2, 4>>, <<0, 0>>, <<3, 4>>, <<0, 4>>} ELSE {<<1, 4>>}), w6 \in {<<0, 3>>, <<0, 2>>},
           o4 \in (IF Sim THEN {1, 2} ELSE {2}), o5 \in (IF Sim THEN {0, 1, 2} ELSE {1}), o6 \in {1} :
          /\ hist = Setup(w4, o4, w5, o5, w6, o6)
          /\ pool = Run(Empty, hist)

Step(c) == /\ pool' = Eff(pool, c)
           /\ hist' = Append(hist, c)

NextSim == LET NE == {i \in DOMAIN Kinds : OfKind(pool, Kinds[i]) # {}}
               kd == Kinds[RandomElement(NE)]
           IN Step(RandomElement(OfKind(pool, kd)))
NextBfs == \E c \in AllCmds(pool) : Step(c)
Next == /\ Len(hist) < SetupLen + DEPTH
        /\ IF Sim THEN NextSim ELSE NextBfs
Spec == Init /\ [][Next]_vars

\* a history is finished when it has DEPTH commands after the setup, or when
\* the magnitude bound stops it
Done == Len(hist) = SetupLen + DEPTH
Emit == Done => CSVWrite("%1$s", <<ToJson(hist)>>, OutFile)
Bounded == Small(pool)                                    \* CONSTRAINT

-----------------------------------------------------------------------------
\* what TLC checks on the model of the code
ModelValid == PoolValid(pool)                             \* C10 on the model
\* the step just taken satisfies its own contract and frame condition (I => A)
ModelStepOK ==
  Len(hist) > SetupLen =>
    LET c == hist[Len(hist)]
        pre == Run(Empty, SubSeq(hist, 1, Len(hist) - 1))
    IN IF MustRefuse(pre, c) THEN pool = pre
       ELSE /\ Refused(pre, c) = FALSE
            /\ TargetOK(pre, c, pool)
            /\ RvOK(pre, c, pool)
            /\ Unchanged(pre, pool, Others(pre, Targets(c)))
=============================================================================
