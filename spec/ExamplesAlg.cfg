SPECIFICATION Spec
CONSTANTS
  WBITS = 5
  Bug_AtWraps = FALSE
  Bug_IntervalWraps = FALSE
  Bug_GridScanGE = FALSE
  Bug_SplineOpLookupByPoint = FALSE
  Bug_IntReciprocal = FALSE
  TIER = "quick"
  P = 2
  Bug_DropLastTerm = FALSE
INVARIANT ContractOK
CHECK_DEADLOCK FALSE
