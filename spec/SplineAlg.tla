------------------------------ MODULE SplineAlg ------------------------------
(***************************************************************************)
(* Splines (Spline.h).                                                     *)
(*                                                                         *)
(*   spline  [g |-> pts, s |-> start, e |-> end, o |-> order, c |-> coef]  *)
(*           c[r] is the coefficient tuple (o+1 rationals, lowest power    *)
(*           first) of the r-th interval of the window, about that         *)
(*           interval's midpoint.  This is exactly what the public         *)
(*           accessors getSupport()/getCoefficients() expose.              *)
(*                                                                         *)
(* The abstraction function Den maps a spline to the function it denotes:  *)
(* grid interval index j (0-based)  |->  trimmed polynomial in the local   *)
(* variable u = x - Mid(j); << >> where the spline has no interval or is   *)
(* zero.  Contracts (Level A, "...Post") are stated on Den, so they do not *)
(* pin accidental representation choices.  Level I ("...I") mirrors the    *)
(* algorithms of Spline.h.                                                 *)
(***************************************************************************)
EXTENDS GridSupport

Spl(g, s, e, o, c) == [g |-> g, s |-> s, e |-> e, o |-> o, c |-> c]
SplSup(p) == Sup(p.g, p.s, p.e)
SplOn(S, o, c) == Spl(S.g, S.s, S.e, o, c)
NIv(g) == Len(g) - 1                          \* number of grid intervals
Ivs(g) == 0 .. (Len(g) - 2)

SplValid(p) == /\ SupValid(SplSup(p))
               /\ Len(p.c) = SupNInt(SplSup(p))
               /\ \A r \in DOMAIN p.c : Len(p.c[r]) = p.o + 1

Mid(g, j)  == RDiv(RAdd(g[j + 1], g[j + 2]), RTwo)
Half(g, j) == RDiv(RSub(g[j + 2], g[j + 1]), RTwo)

HasIv(p, j) == j >= p.s /\ j + 1 < p.e
Piece(p, j) == p.c[j - p.s + 1]               \* stored tuple of interval j (HasIv)
DenAt(p, j) == IF HasIv(p, j) THEN PTrim(Piece(p, j)) ELSE <<>>
Den(p) == [j \in Ivs(p.g) |-> DenAt(p, j)]
SameFn(p, q) == p.g = q.g /\ Den(p) = Den(q)

EmptySpl(g, o) == Spl(g, 0, 0, o, <<>>)

-----------------------------------------------------------------------------
\* Level A: contracts

AddPost(a, b, r) == /\ a.g = b.g /\ r.g = a.g /\ SplValid(r) /\ r.o = Max(a.o, b.o)
                    /\ \A j \in Ivs(a.g) : DenAt(r, j) = PTrim(PAdd(DenAt(a, j), DenAt(b, j)))
SubPost(a, b, r) == /\ a.g = b.g /\ r.g = a.g /\ SplValid(r) /\ r.o = Max(a.o, b.o)
                    /\ \A j \in Ivs(a.g) : DenAt(r, j) = PTrim(PSub(DenAt(a, j), DenAt(b, j)))
MulPost(a, b, r) == /\ a.g = b.g /\ r.g = a.g /\ SplValid(r) /\ r.o = a.o + b.o
                    /\ \A j \in Ivs(a.g) : DenAt(r, j) = PTrim(PMul(DenAt(a, j), DenAt(b, j)))
ScalePost(a, k, r) == /\ r.g = a.g /\ SplValid(r) /\ r.o = a.o
                      /\ \A j \in Ivs(a.g) : DenAt(r, j) = PTrim(PScale(k, DenAt(a, j)))
\* cross-order assignment / any operation that must preserve the function
SameFnPost(a, r, o) == r.g = a.g /\ SplValid(r) /\ r.o = o /\ Den(r) = Den(a)

RECURSIVE LinCombDen(_, _, _)
LinCombDen(cs, ss, j) ==
  IF cs = <<>> THEN <<>>
  ELSE PAdd(PScale(Head(cs), DenAt(Head(ss), j)), LinCombDen(Tail(cs), Tail(ss), j))
LinCombPost(cs, ss, r) == /\ Len(cs) = Len(ss) /\ Len(cs) >= 1
                          /\ \A i \in DOMAIN ss : ss[i].g = ss[1].g
                          /\ r.g = ss[1].g /\ SplValid(r) /\ r.o = ss[1].o
                          /\ \A j \in Ivs(r.g) : DenAt(r, j) = PTrim(LinCombDen(cs, ss, j))

\* evaluation: zero outside the closed support, otherwise the value of a piece
\* whose closed interval contains x
EvalPost(p, x, v) ==
  IF ~SupHasIntervals(SplSup(p)) \/ RLt(x, p.g[p.s + 1]) \/ RLt(p.g[p.e], x)
  THEN v = RZero
  ELSE \E j \in p.s .. (p.e - 2) :
          /\ RLe(p.g[j + 1], x) /\ RLe(x, p.g[j + 2])
          /\ v = PEvalPow(Piece(p, j), RSub(x, Mid(p.g, j)))

IsZeroPost(p, b) == b <=> (\A j \in Ivs(p.g) : DenAt(p, j) = <<>>)
OverlapPost(a, b, v) == v <=> (\E j \in Ivs(a.g) : HasIv(a, j) /\ HasIv(b, j))
SplEqPost(a, b, v) == v <=> (/\ SupEq(SplSup(a), SplSup(b)) /\ a.c = b.c)

-----------------------------------------------------------------------------
\* Level I: the algorithms of Spline.h

PadTo(t, n) == PPad(t, n)                                       \* changearraysize

\* operator+ : hull of the supports, three-way split per interval (Spline.h:427-463)
AddI(a, b) ==
  LET U == UnionI(SplSup(a), SplSup(b))
      o == Max(a.o, b.o)
      n == SupNInt(U)
  IN SplOn(U, o,
       [i \in 1..n |->
          LET abs == (i - 1) + U.s
              ra == IvFromAbs(SplSup(a), abs)
              rb == IvFromAbs(SplSup(b), abs)
          IN IF ra # None /\ rb = None THEN PadTo(a.c[ra + 1], o + 1)
             ELSE IF rb # None /\ ra = None THEN PadTo(b.c[rb + 1], o + 1)
             ELSE IF ra # None /\ rb # None THEN PAdd(b.c[rb + 1], a.c[ra + 1])
             ELSE PZeros(o + 1)])

ScaleI(a, k) == [a EXCEPT !.c = [r \in DOMAIN a.c |-> PScale(k, a.c[r])]]
NegI(a) == ScaleI(a, FromInt(-1))
SubI(a, b) == AddI(a, ScaleI(b, FromInt(-1)))                   \* (*this) + (-1 * a)
DivI(a, k) == ScaleI(a, RDiv(ROne, k))                          \* (*this) * (1/d)

\* operator* : intersection, index translation, convolution (Spline.h:382-416)
MulI(a, b) ==
  LET X == InterI(SplSup(a), SplSup(b))
      o == a.o + b.o
      n == SupNInt(X)
  IN IF n = 0 THEN SplOn(X, o, <<>>)
     ELSE SplOn(X, o,
            [i \in 1..n |->
               LET abs == (i - 1) + X.s
                   ra == IvFromAbs(SplSup(a), abs)
                   rb == IvFromAbs(SplSup(b), abs)
               IN PPad(PMul(a.c[ra + 1], b.c[rb + 1]), o + 1)])

\* cross-order operator= : zero pad, keep the support (Spline.h:350-370)
AssignLowerI(a, o) == [a EXCEPT !.o = o, !.c = [r \in DOMAIN a.c |-> PadTo(a.c[r], o + 1)]]

\* linearCombination (Spline.h:582-680)
LinCombI(cs, ss) ==
  LET g == ss[1].g
      o == ss[1].o
      ne == {i \in DOMAIN ss : ss[i].s # ss[i].e}
      s0 == IF ne = {} THEN 0 ELSE SetMin({ss[i].s : i \in ne})
      e0 == IF ne = {} THEN 0 ELSE SetMax({ss[i].e : i \in ne})
      U == Sup(g, s0, e0)
  IN SplOn(U, o,
       [r \in 1..SupNInt(U) |->
          LET abs == (r - 1) + U.s
              term(i) == IF HasIv(ss[i], abs) THEN PScale(cs[i], Piece(ss[i], abs))
                         ELSE PZeros(o + 1)
              RECURSIVE acc(_)
              acc(i) == IF i = 0 THEN PZeros(o + 1) ELSE PAdd(acc(i - 1), term(i))
          IN acc(Len(ss))])

\* evaluation: range test, lower_bound over the window, clamp, Horner
RECURSIVE HornerFrom(_, _, _)
HornerFrom(t, dx, k) ==          \* value of t[k] + dx*(t[k+1] + dx*(...))
  IF k = Len(t) THEN t[k] ELSE RAdd(RMul(dx, HornerFrom(t, dx, k + 1)), t[k])
PEvalHorner(t, dx) == HornerFrom(t, dx, 1)

FindIntervalI(p, x) ==           \* relative interval index or None
  IF SupSize(SplSup(p)) < 2 \/ RGt(x, p.g[p.e]) \/ RLt(x, p.g[p.s + 1]) THEN None
  ELSE LET win == SupIter(SplSup(p))
           k == LowerBoundFrom(win, x, 1) - 1          \* std::distance(begin, it)
       IN Max(0, k - 1)
EvalI(p, x) ==
  LET r == FindIntervalI(p, x)
  IN IF r = None THEN RZero
     ELSE LET xm == RDiv(RAdd(p.g[p.s + r + 2], p.g[p.s + r + 1]), RTwo)
          IN PEvalHorner(p.c[r + 1], RSub(x, xm))

IsZeroI(p) == IF ~SupHasIntervals(SplSup(p)) THEN TRUE
              ELSE \A r \in DOMAIN p.c : \A k \in DOMAIN p.c[r] : p.c[r][k] = RZero
OverlapI(a, b) ==
  IF ~SupHasIntervals(SplSup(a)) \/ ~SupHasIntervals(SplSup(b)) THEN FALSE
  ELSE ~(RLe(b.g[b.e], a.g[a.s + 1]) \/ RGe(b.g[b.s + 1], a.g[a.e]))
SplEqI(a, b) == EqI(SplSup(a), SplSup(b)) /\ a.c = b.c

\* every coefficient access of Level I stays inside its tuple (C09): the three
\* lookups above index a.c / b.c with ra+1, rb+1 obtained from IvFromAbs, which
\* is in 1..Len(c) exactly when the spline is valid
LookupInBounds(p, abs) ==
  LET r == IvFromAbs(SplSup(p), abs) IN r # None => (r + 1 \in DOMAIN p.c)
=============================================================================
