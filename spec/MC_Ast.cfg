SPECIFICATION Spec
CONSTANTS
  WBITS = 5
  Bug_AtWraps = FALSE
  Bug_IntervalWraps = FALSE
  Bug_GridScanGE = FALSE
  Bug_SplineOpLookupByPoint = FALSE
  Bug_IntReciprocal = FALSE
  DEPTH = 3
INVARIANT Emit
CHECK_DEADLOCK FALSE
