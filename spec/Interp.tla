-------------------------------- MODULE Interp --------------------------------
(***************************************************************************)
(* Spline interpolation (interpolation/interpolation.h).                   *)
(*   x    a support [g, s, e] (the abscissae are its grid points)          *)
(*   y    ordinates, one per abscissa                                      *)
(*   bcs  tuple of boundary conditions [node |-> 0 (FIRST) / 1 (LAST),     *)
(*        d |-> derivative order, v |-> value], order-1 of them            *)
(* Level A is a relation on the returned spline r: it is NOT computed by   *)
(* the specification (no linear solve); a spline satisfies it or not.      *)
(***************************************************************************)
EXTENDS Generator, LinSolve

\* what the entry point documents as admissible
ArgsValid(x, y, order, bcs) ==
  /\ SupSize(x) = Len(y) /\ SupSize(x) >= 2
  /\ \A i \in DOMAIN bcs : bcs[i].d >= 1 /\ bcs[i].d <= order

\* internal::defaultBoundaries<T, order>(): the lowest derivatives set to zero,
\* alternating between first and last node
DefaultBcs(order) ==
  [i1 \in 1..(order - 1) |->
     LET i == i1 - 1 IN
     IF i % 2 = 0 THEN [node |-> 0, d |-> i \div 2 + 1, v |-> RZero]
     ELSE [node |-> 1, d |-> (i - 1) \div 2 + 1, v |-> RZero]]

LeftVal(r, j, d)  == PEvalPow(PDerivN(Piece(r, j), d), RNeg(Half(r.g, j)))   \* at the left end of interval j
RightVal(r, j, d) == PEvalPow(PDerivN(Piece(r, j), d), Half(r.g, j))         \* at the right end

InterpPost(x, y, order, bcs, r) ==
  LET n == SupSize(x)
      first == x.s
      last == x.e - 2                      \* last interval of the window
  IN /\ SplValid(r) /\ r.o = order /\ SplSup(r) = x
     \* the data are reproduced by every piece that touches a node
     /\ \A i \in 0..(n - 1) :
          /\ (i <= n - 2 => LeftVal(r, x.s + i, 0) = y[i + 1])
          /\ (i >= 1 => RightVal(r, x.s + i - 1, 0) = y[i + 1])
     \* derivatives 1 .. order-1 are continuous at every interior node
     /\ \A i \in 1..(n - 2) : \A d \in 1..(order - 1) :
          RightVal(r, x.s + i - 1, d) = LeftVal(r, x.s + i, d)
     \* every boundary condition holds
     /\ \A k \in DOMAIN bcs :
          IF bcs[k].node = 0 THEN LeftVal(r, first, bcs[k].d) = bcs[k].v
          ELSE RightVal(r, last, bcs[k].d) = bcs[k].v

\* boundary sets for which unique solvability is known (then a "singular
\* system" report of the exact solver is itself a violation):
\*   - order 1 (no conditions), the default sets of order 2 and 3 (clamped)
\*   - all conditions at one node with derivative orders exactly 1..order-1
\*     (the first/last piece is fixed by its Taylor data plus one value, the
\*     others follow by marching)
OneSided(order, bcs, node) ==
  /\ \A k \in DOMAIN bcs : bcs[k].node = node
  /\ {bcs[k].d : k \in DOMAIN bcs} = 1..(order - 1)
KnownSolvable(order, bcs) ==
  \/ order = 1
  \/ (order <= 3 /\ bcs = DefaultBcs(order))
  \/ OneSided(order, bcs, 0) \/ OneSided(order, bcs, 1)

\* Level I for order 1 (the system decouples): the piecewise linear interpolant
LinearInterpI(x, y) ==
  SplOn(x, 1, [i \in 1..(SupSize(x) - 1) |->
                 <<RDiv(RAdd(y[i], y[i + 1]), RTwo),
                   RDiv(RSub(y[i + 1], y[i]), RMul(RTwo, Half(x.g, x.s + i - 1)))>>])

\* Level I for every order: the linear system as interpolate() assembles it
\* (interpolation.h:198-318: first-node value row and FIRST boundary rows, per
\* interior node two value rows and order-1 continuity rows, last-node value row
\* and LAST boundary rows), solved exactly.  Result << >> = singular system.
InterpI(x, y, order, bcs) ==
  LET n == SupSize(x)
      nc == order + 1
      N == nc * (n - 1)
      X(i) == x.g[x.s + i + 1]                                  \* x[i], 0-based
      Zero == [k \in 1..N |-> RZero]
      \* row with entries f(i) at columns base+i (0-based i in lo..order)
      Row(base, lo, f(_)) == [k \in 1..N |-> IF k - 1 >= base + lo /\ k - 1 <= base + order THEN f(k - 1 - base) ELSE RZero]
      PowRow(base, dx) == Row(base, 0, LAMBDA i : RPow(dx, i))
      DerRow(base, dx, d, sg) == Row(base, d, LAMBDA i : RMul(FromInt(sg * Falling(i - d, d)), RPow(dx, i - d)))
      dxF == RDiv(RSub(X(0), X(1)), RTwo)
      dxL == RDiv(RSub(X(n - 1), X(n - 2)), RTwo)
      firstRows == <<[r |-> PowRow(0, dxF), b |-> y[1]]>>
                   \o SelectSeq([k \in DOMAIN bcs |-> IF bcs[k].node = 0 THEN [r |-> DerRow(0, dxF, bcs[k].d, 1), b |-> bcs[k].v] ELSE [r |-> Zero, b |-> RZero, skip |-> TRUE]],
                                LAMBDA e : "skip" \notin DOMAIN e)
      Interior(c) ==
        LET dx1 == RDiv(RSub(X(c), X(c - 1)), RTwo)
            dx2 == RDiv(RSub(X(c), X(c + 1)), RTwo)
        IN <<[r |-> PowRow(nc * (c - 1), dx1), b |-> y[c + 1]], [r |-> PowRow(nc * c, dx2), b |-> y[c + 1]]>>
           \o [d \in 1..(order - 1) |->
                 [r |-> [k \in 1..N |-> RAdd(DerRow(nc * (c - 1), dx1, d, 1)[k], DerRow(nc * c, dx2, d, -1)[k])], b |-> RZero]]
      RECURSIVE Inner(_)
      Inner(c) == IF c + 1 >= n THEN <<>> ELSE Interior(c) \o Inner(c + 1)
      lastRows == <<[r |-> PowRow(nc * (n - 2), dxL), b |-> y[n]]>>
                  \o SelectSeq([k \in DOMAIN bcs |-> IF bcs[k].node = 1 THEN [r |-> DerRow(nc * (n - 2), dxL, bcs[k].d, 1), b |-> bcs[k].v] ELSE [r |-> Zero, b |-> RZero, skip |-> TRUE]],
                               LAMBDA e : "skip" \notin DOMAIN e)
      rows == firstRows \o Inner(1) \o lastRows
      sol == IF Len(rows) # N THEN <<>> ELSE Solve([i \in 1..N |-> rows[i].r], [i \in 1..N |-> rows[i].b])
  IN IF sol = <<>> THEN <<>>
     ELSE SplOn(x, order, [j \in 1..(n - 1) |-> [k \in 1..nc |-> sol[nc * (j - 1) + k]]])

\* the ISolver protocol the routine must follow: construct(size) -> writes
\* inside the size -> solve() once -> reads inside the size
ProtocolOK(lg, order, n) ==
  /\ lg.constructed = 1 /\ lg.size = (order + 1) * (n - 1)
  /\ lg.solves = 1 /\ lg.oor = 0 /\ lg.was = 0 /\ lg.rbs = 0
  /\ lg.x >= lg.size
=============================================================================
