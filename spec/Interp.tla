-------------------------------- MODULE Interp --------------------------------
(***************************************************************************)
(* Spline interpolation (interpolation/interpolation.h).                   *)
(*   x    a support [g, s, e] (the abscissae are its grid points)          *)
(*   y    ordinates, one per abscissa                                      *)
(*   bcs  tuple of boundary conditions [node |-> 0 (FIRST) / 1 (LAST),     *)
(*        d |-> derivative order, v |-> value], order-1 of them            *)
(* Level A is a relation on the returned spline r: it is NOT computed by   *)
(* the specification (no linear solve); a spline satisfies it or not.      *)
(***************************************************************************)
EXTENDS Generator

\* what the entry point documents as admissible
ArgsValid(x, y, order, bcs) ==
  /\ SupSize(x) = Len(y) /\ SupSize(x) >= 2
  /\ \A i \in DOMAIN bcs : bcs[i].d >= 1 /\ bcs[i].d <= order

\* internal::defaultBoundaries<T, order>(): the lowest derivatives set to zero,
\* alternating between first and last node
DefaultBcs(order) ==
  [i1 \in 1..(order - 1) |->
     LET i == i1 - 1 IN
     IF i % 2 = 0 THEN [node |-> 0, d |-> i \div 2 + 1, v |-> RZero]
     ELSE [node |-> 1, d |-> (i - 1) \div 2 + 1, v |-> RZero]]

LeftVal(r, j, d)  == PEvalPow(PDerivN(Piece(r, j), d), RNeg(Half(r.g, j)))   \* at the left end of interval j
RightVal(r, j, d) == PEvalPow(PDerivN(Piece(r, j), d), Half(r.g, j))         \* at the right end

InterpPost(x, y, order, bcs, r) ==
  LET n == SupSize(x)
      first == x.s
      last == x.e - 2                      \* last interval of the window
  IN /\ SplValid(r) /\ r.o = order /\ SplSup(r) = x
     \* the data are reproduced by every piece that touches a node
     /\ \A i \in 0..(n - 1) :
          /\ (i <= n - 2 => LeftVal(r, x.s + i, 0) = y[i + 1])
          /\ (i >= 1 => RightVal(r, x.s + i - 1, 0) = y[i + 1])
     \* derivatives 1 .. order-1 are continuous at every interior node
     /\ \A i \in 1..(n - 2) : \A d \in 1..(order - 1) :
          RightVal(r, x.s + i - 1, d) = LeftVal(r, x.s + i, d)
     \* every boundary condition holds
     /\ \A k \in DOMAIN bcs :
          IF bcs[k].node = 0 THEN LeftVal(r, first, bcs[k].d) = bcs[k].v
          ELSE RightVal(r, last, bcs[k].d) = bcs[k].v

\* boundary sets for which unique solvability is known (then a "singular
\* system" report of the exact solver is itself a violation):
\*   - order 1 (no conditions), the default sets of order 2 and 3 (clamped)
\*   - all conditions at one node with derivative orders exactly 1..order-1
\*     (the first/last piece is fixed by its Taylor data plus one value, the
\*     others follow by marching)
OneSided(order, bcs, node) ==
  /\ \A k \in DOMAIN bcs : bcs[k].node = node
  /\ {bcs[k].d : k \in DOMAIN bcs} = 1..(order - 1)
KnownSolvable(order, bcs) ==
  \/ order = 1
  \/ (order <= 3 /\ bcs = DefaultBcs(order))
  \/ OneSided(order, bcs, 0) \/ OneSided(order, bcs, 1)

\* Level I for order 1 (the system decouples): the piecewise linear interpolant
LinearInterpI(x, y) ==
  SplOn(x, 1, [i \in 1..(SupSize(x) - 1) |->
                 <<RDiv(RAdd(y[i], y[i + 1]), RTwo),
                   RDiv(RSub(y[i + 1], y[i]), RMul(RTwo, Half(x.g, x.s + i - 1)))>>])

\* the ISolver protocol the routine must follow: construct(size) -> writes
\* inside the size -> solve() once -> reads inside the size
ProtocolOK(lg, order, n) ==
  /\ lg.constructed = 1 /\ lg.size = (order + 1) * (n - 1)
  /\ lg.solves = 1 /\ lg.oor = 0 /\ lg.was = 0 /\ lg.rbs = 0
  /\ lg.x >= lg.size
=============================================================================
