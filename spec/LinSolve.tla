------------------------------- MODULE LinSolve -------------------------------
(***************************************************************************)
(* Exact solution of a small dense linear system over the rationals, used  *)
(* where the code under specification solves one (the example diffusion    *)
(* solver, spline interpolation).                                          *)
(***************************************************************************)
EXTENDS GridSupport

\* Gaussian elimination on an augmented matrix (a tuple of rows, each a
\* tuple of n+1 rationals); first non-zero pivot; "singular" -> << >>
RowScale(r, c) == [k \in DOMAIN r |-> RMul(c, r[k])]
RowSub(r, q, c) == [k \in DOMAIN r |-> RSub(r[k], RMul(c, q[k]))]
Swap(A, i, j) == [k \in DOMAIN A |-> IF k = i THEN A[j] ELSE IF k = j THEN A[i] ELSE A[k]]

RECURSIVE Eliminate(_, _)
Eliminate(A, c) ==              \* column c .. n already needs work
  LET n == Len(A) IN
  IF c > n THEN A
  ELSE LET cand == {i \in c..n : ~RIsZero(A[i][c])}
       IN IF cand = {} THEN <<>>
          ELSE LET p == SetMin(cand)
                   B == Swap(A, c, p)
                   piv == RowScale(B[c], RDiv(ROne, B[c][c]))
                   C == [i \in 1..n |-> IF i = c THEN piv ELSE RowSub(B[i], piv, B[i][c])]
               IN Eliminate(C, c + 1)
Solve(M, b) ==                  \* M: n x n, b: n  ->  x, or << >> if singular
  LET n == Len(b)
      A == [i \in 1..n |-> [k \in 1..(n + 1) |-> IF k <= n THEN M[i][k] ELSE b[i]]]
      Red == IF n = 0 THEN <<>> ELSE Eliminate(A, 1)
  IN IF n = 0 THEN <<>> ELSE IF Red = <<>> THEN <<>> ELSE [i \in 1..n |-> Red[i][n + 1]]

=============================================================================
