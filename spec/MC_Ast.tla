-------------------------------- MODULE MC_Ast --------------------------------
(***************************************************************************)
(* Sampling of deeper operator expressions (depth 3-4) for C05: the set of *)
(* programs is unbounded, so beyond the exhaustive depth-2 set of MC_Ops   *)
(* expressions are drawn at random from the grammar of module Ops.         *)
(* Run:  tlc -simulate num=N -depth DEPTH+1 -seed VERIF_SEED               *)
(* A behaviour wraps a leaf DEPTH times (scalar forms, unary minus,        *)
(* product / sum / difference with a leaf on either side); the invariant   *)
(* Emit writes the finished AST as one JSON line.                          *)
(***************************************************************************)
EXTENDS Ops, Json, CSV, IOUtils, TLC

CONSTANT DEPTH
VARIABLES t, d
OutFile == IF "GEN_OUT" \in DOMAIN IOEnv THEN IOEnv.GEN_OUT ELSE "/dev/null"

Id == [k |-> "Id"]
Xn(n) == [k |-> "X", n |-> n]
Dn(n) == [k |-> "Dx", n |-> n]
SplLeaf == [k |-> "Spl", vo |-> 1, slot |-> 1]
Leaves == {Id, Xn(1), Xn(2), Dn(1), Dn(2), Dn(3), SplLeaf}
ScalKinds == {"ScalL", "ScalR", "Div", "AddSR", "AddSL", "SubSR", "SubSL"}
Scalars == {<<"T", RTwo>>, <<"T", R(-1, 2)>>, <<"T", R(3, 4)>>, <<"int", FromInt(2)>>, <<"int", FromInt(-1)>>, <<"int", FromInt(3)>>,
            <<"uint", FromInt(2)>>, <<"ulong", FromInt(3)>>}

Wraps(a) ==
  {[k |-> kd, t |-> s[1], v |-> s[2], o |-> a] : kd \in ScalKinds, s \in Scalars}
  \cup {[k |-> "Neg", o |-> a]}
  \cup {[k |-> kd, l |-> a, r |-> b] : kd \in {"Prod", "Sum", "Diff"}, b \in Leaves}
  \cup {[k |-> kd, l |-> b, r |-> a] : kd \in {"Prod", "Sum", "Diff"}, b \in Leaves}
\* keep the result order of an order-3 operand within what the harness instantiates
Fits(a) == OutOrd(a, 3) <= 8

Init == t \in Leaves /\ d = 0
Next == /\ d < DEPTH
        /\ LET W == {a \in Wraps(t) : Fits(a)} IN t' = RandomElement(W)
        /\ d' = d + 1
Spec == Init /\ [][Next]_<<t, d>>
Emit == d = DEPTH => CSVWrite("%1$s", <<ToJson(t)>>, OutFile)
=============================================================================
