SPECIFICATION Spec
CONSTANTS
  TIER = "quick"
ACTION_CONSTRAINT Emit
INVARIANT Admissible
CHECK_DEADLOCK FALSE
