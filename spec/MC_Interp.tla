------------------------------ MODULE MC_Interp ------------------------------
(***************************************************************************)
(* Case generation for interpolation (C12, interpolation part of C11).     *)
(*   st = [ph |-> 0, x |-> support] --> [ph |-> 1, c |-> case]             *)
(***************************************************************************)
EXTENDS Interp, Domains, Json, CSV, IOUtils

VARIABLE st
OutFile == IF "GEN_OUT" \in DOMAIN IOEnv THEN IOEnv.GEN_OUT ELSE "/dev/null"

\* strongly non-uniform grids (spacing ratios up to 64)
U5 == Q(<<0, 2, 4, 6, 8>>)
R5 == <<R(0, 1), R(1, 8), R(1, 1), R(9, 1), R(10, 1)>>
R4 == Q(<<-3, -2, 6, 8>>)
GridsI == IF Thorough THEN {U5, R5, R4, N5} ELSE {U5, R5, R4}
Orders == IF Thorough THEN 1..4 ELSE 1..3
Windows(g) == {S \in SupportsOn(g) : SupSize(S) >= 2}

YVar(n, v) == [i \in 1..n |-> FromInt(((5 * i + 3 * v) % 7) - 3)]
Ys(n) == {YVar(n, 0), YVar(n, 1), [i \in 1..n |-> IF i = 2 THEN ROne ELSE RZero]}

BC(node, d, v) == [node |-> node, d |-> d, v |-> v]
AllAt(order, node, v) == [i \in 1..(order - 1) |-> BC(node, i, IF i = 1 THEN v ELSE RZero)]
\* mixed sets: first condition moved to the other node / repeated derivative orders
Mixed(order) ==
  IF order = 1 THEN {}
  ELSE IF order = 2 THEN {<<BC(1, 1, FromInt(-2))>>, <<BC(0, 2, ROne)>>, <<BC(1, 2, RZero)>>}
  ELSE IF order = 3 THEN {<<BC(0, 1, ROne), BC(1, 2, RZero)>>, <<BC(0, 2, RZero), BC(1, 2, RZero)>>,     \* natural spline
                          <<BC(1, 1, FromInt(-2)), BC(1, 3, ROne)>>, <<BC(0, 3, RZero), BC(1, 3, RZero)>>}
  ELSE {<<BC(0, 1, ROne), BC(1, 1, RZero), BC(1, 2, RZero)>>, <<BC(0, 2, RZero), BC(1, 2, RZero), BC(0, 4, ROne)>>}
\* every condition with its own non-zero value
AllNZ(order, node) == [i \in 1..(order - 1) |-> BC(node, i, R(2 * i - 5, 2))]
BcSets(order) ==
  {AllAt(order, 0, ROne), AllAt(order, 1, FromInt(-2)), AllAt(order, 0, RZero), AllNZ(order, 0), AllNZ(order, 1)} \cup Mixed(order)

\* order 4 on the strongly non-uniform grid leaves TLC's 32-bit integers (64^4 in the denominators)
OrdersOn(x) == IF x.g = R5 THEN Orders \cap 1..3 ELSE Orders
CasesFor(x) ==
  LET n == SupSize(x) IN
  UNION {{[op |-> "Interp", x |-> x, y |-> y, order |-> o, dflt |-> 1, bcs |-> DefaultBcs(o)] : y \in Ys(n)}
         \cup {[op |-> "Interp", x |-> x, y |-> y, order |-> o, dflt |-> 0, bcs |-> b] : y \in {YVar(n, 0), YVar(n, 1)}, b \in BcSets(o)}
         : o \in OrdersOn(x)}
  \* argument validation (C11): every size pair, every boundary derivative order
  \cup (IF x = SupWhole(U5)
        THEN {[op |-> "Interp", x |-> Sup(U5, 0, nx), y |-> YVar(ny, 0), order |-> 2, dflt |-> 1, bcs |-> DefaultBcs(2)] : nx \in 0..4, ny \in 0..4}
             \cup {[op |-> "Interp", x |-> Sup(U5, 2, 2 + nx), y |-> YVar(ny, 1), order |-> 1, dflt |-> 1, bcs |-> <<>>] : nx \in 1..3, ny \in 0..3}
             \cup UNION {{[op |-> "Interp", x |-> x, y |-> YVar(5, 0), order |-> o, dflt |-> 0,
                           bcs |-> [i \in 1..(o - 1) |-> IF i = pos THEN BC(nd, d, ROne) ELSE BC(0, i, RZero)]] :
                            d \in 0..(o + 1), pos \in 1..(o - 1), nd \in {0, 1}} : o \in 2..3}
        ELSE {})

\* size sweep: many nodes.  The exact solution of a general problem with many nodes has denominators that grow
\* like (2 + sqrt 3)^n and leaves TLC's integers; data taken from one global polynomial of the spline's degree
\* with the boundary conditions that polynomial satisfies has the polynomial itself as its unique
\* interpolant, so every coefficient stays small: y = x^2 with s'(first) = 2 x_1 (or at the last node),
\* y = x^3 with both first (or both second) derivatives prescribed; order 1 with arbitrary data.
InterpSweepN == IF Thorough THEN (3..40) \cup {64, 65} ELSE {3, 6, 9, 16, 17, 18, 24, 32, 33, 34}
PowR(x, k) == IF k = 0 THEN ROne ELSE IF k = 1 THEN x ELSE IF k = 2 THEN RMul(x, x) ELSE RMul(x, RMul(x, x))
SweepInterpCases(x) ==
  LET n == SupSize(x)
      a == SupFront(x)
      b == SupBack(x)
      ys(k) == [i \in 1..n |-> PowR(SupAt(x, i - 1), k)]
  IN {[op |-> "Interp", x |-> x, y |-> YVar(n, 0), order |-> 1, dflt |-> 1, bcs |-> <<>>]}
     \* (the harness' exact elimination works in 128-bit rationals: order 2 up to 34 nodes, order 3 up to 18)
     \cup {[op |-> "Interp", x |-> x, y |-> ys(2), order |-> 2, dflt |-> 0, bcs |-> bc] :
             bc \in IF n > 34 THEN {} ELSE {<<BC(0, 1, RMul(RTwo, a))>>, <<BC(1, 1, RMul(RTwo, b))>>, <<BC(1, 2, RTwo)>>}}
     \cup {[op |-> "Interp", x |-> x, y |-> ys(3), order |-> 3, dflt |-> 0, bcs |-> bc] :
             bc \in IF n > 18 THEN {} ELSE {<<BC(0, 1, RMul(FromInt(3), PowR(a, 2))), BC(1, 1, RMul(FromInt(3), PowR(b, 2)))>>,
                     <<BC(0, 2, RMul(FromInt(6), a)), BC(1, 2, RMul(FromInt(6), b))>>,
                     <<BC(1, 1, RMul(FromInt(3), PowR(b, 2))), BC(1, 2, RMul(FromInt(6), b))>>}}
SweepInterpX == UNION {{SupWhole(SweepGrid(n - 1)), Sup(SweepGrid(n + 2), 2, n + 2)} : n \in InterpSweepN}

Init == \/ \E g \in GridsI : \E x \in Windows(g) : st = [ph |-> 0, x |-> x, sw |-> 0]
        \/ \E x \in SweepInterpX : st = [ph |-> 0, x |-> x, sw |-> 1]
Next == /\ st.ph = 0
        /\ \E c \in (IF st.sw = 1 THEN SweepInterpCases(st.x) ELSE CasesFor(st.x)) : st' = [ph |-> 1, c |-> c]
Spec == Init /\ [][Next]_st
Emit == (st'.ph = 1) => CSVWrite("%1$s", <<ToJson(st'.c)>>, OutFile)

\* the relation is satisfiable and singles out the known solution for order 1
LinearOK == st.ph = 1 /\ st.c.order = 1 /\ ArgsValid(st.c.x, st.c.y, 1, st.c.bcs) =>
  InterpPost(st.c.x, st.c.y, 1, <<>>, LinearInterpI(st.c.x, st.c.y))
\* Level I => Level A for every order, and the solvability claim: on the sets
\* KnownSolvable names, the assembled system is non-singular
SmallCase(c) == SupSize(c.x) <= (IF c.order >= 3 THEN 3 ELSE 4) /\ \A i \in DOMAIN c.x.g : c.x.g[i][2] = 1
AssemblyOK == st.ph = 1 /\ ArgsValid(st.c.x, st.c.y, st.c.order, st.c.bcs) /\ SmallCase(st.c) =>
  LET r == InterpI(st.c.x, st.c.y, st.c.order, st.c.bcs)
  IN /\ (KnownSolvable(st.c.order, st.c.bcs) => r # <<>>)
     /\ (r # <<>> => InterpPost(st.c.x, st.c.y, st.c.order, st.c.bcs, r))
\* default boundary sets have the documented shape and are admissible
DefaultOK == \A o \in 1..5 :
  /\ Len(DefaultBcs(o)) = o - 1
  /\ \A i \in DOMAIN DefaultBcs(o) :
       /\ DefaultBcs(o)[i].v = RZero /\ DefaultBcs(o)[i].d >= 1 /\ DefaultBcs(o)[i].d <= o
       /\ DefaultBcs(o)[i].node = (i - 1) % 2
=============================================================================
