--------------------------------- MODULE Ops ---------------------------------
(***************************************************************************)
(* Operator expressions (operators/*.h).                                   *)
(*                                                                         *)
(* An expression is an AST (a record with a kind field k):                 *)
(*   [k |-> "Id"]                                IdentityOperator{}        *)
(*   [k |-> "X",  n |-> n]                       X<n>{}      (Position)    *)
(*   [k |-> "Dx", n |-> n]                       Dx<n>{}     (Derivative)  *)
(*   [k |-> "Spl", vo |-> order, slot |-> i]     SplineOperator{fs[i]}     *)
(*   [k |-> "ScalL", t |-> ty, v |-> c, o |-> A]     c * A                 *)
(*   [k |-> "ScalR", t, v, o]                        A * c                 *)
(*   [k |-> "Div",   t, v, o]                        A / c                 *)
(*   [k |-> "AddSR", t, v, o]  A + c      [k |-> "AddSL", ...]  c + A      *)
(*   [k |-> "SubSR", t, v, o]  A - c      [k |-> "SubSL", ...]  c - A      *)
(*   [k |-> "Neg", o |-> A]                          -A                    *)
(*   [k |-> "Prod", l, r]  l * r     [k |-> "Sum", l, r]   [k |-> "Diff"]  *)
(* t = "T" (scalar of the spline's data type), "int", "uint" or "ulong"    *)
(* (C++ literals 3, 3u, 3ul), "flt"/"dbl" (3.0f, 3.0: floating families     *)
(* only); v is the scalar's value as a rational.  fs is the tuple of    *)
(* factor splines the Spl leaves refer to.                                 *)
(*                                                                         *)
(* Level A  DenApply: the differential expression the AST spells, applied  *)
(*          to a polynomial piece, by structural recursion on textbook     *)
(*          definitions.                                                   *)
(* Level I  TransformI: what transform() computes on the coefficient array *)
(*          (static array sizes, falling factorials, binomial expansion    *)
(*          about the midpoint, scalar casts, the factor lookup).          *)
(***************************************************************************)
EXTENDS SplineAlg

CONSTANTS Bug_SplineOpLookupByPoint,   \* SplineOperator looks its factor up by grid-point index (pinned, D4)
          Bug_IntReciprocal            \* A / c forms static_cast<S>(1) / c in the scalar's own type (pinned, D5)

Leaf(op) == op.k \in {"Id", "X", "Dx", "Spl"}
Scal(op) == op.k \in {"ScalL", "ScalR", "Div", "AddSR", "AddSL", "SubSR", "SubSL"}
Bin(op)  == op.k \in {"Prod", "Sum", "Diff"}

-----------------------------------------------------------------------------
\* Level A

\* op applied to the polynomial p living on grid interval j (local variable
\* u = x - Mid(g, j)); the operand's support contains interval j
RECURSIVE DenApply(_, _, _, _, _)
DenApply(op, p, g, j, fs) ==
  CASE op.k = "Id"    -> p
    [] op.k = "Dx"    -> PDerivN(p, op.n)
    [] op.k = "X"     -> PTimesLinN(p, Mid(g, j), op.n)
    [] op.k = "Spl"   -> PMul(DenAt(fs[op.slot], j), p)
    [] op.k \in {"ScalL", "ScalR"} -> PScale(op.v, DenApply(op.o, p, g, j, fs))
    [] op.k = "Div"   -> PScale(RDiv(ROne, op.v), DenApply(op.o, p, g, j, fs))
    [] op.k \in {"AddSR", "AddSL"} -> PAdd(DenApply(op.o, p, g, j, fs), PScale(op.v, p))
    [] op.k = "SubSR" -> PSub(DenApply(op.o, p, g, j, fs), PScale(op.v, p))
    [] op.k = "SubSL" -> PSub(PScale(op.v, p), DenApply(op.o, p, g, j, fs))
    [] op.k = "Neg"   -> PNeg(DenApply(op.o, p, g, j, fs))
    [] op.k = "Prod"  -> DenApply(op.l, DenApply(op.r, p, g, j, fs), g, j, fs)
    [] op.k = "Sum"   -> PAdd(DenApply(op.l, p, g, j, fs), DenApply(op.r, p, g, j, fs))
    [] op.k = "Diff"  -> PSub(DenApply(op.l, p, g, j, fs), DenApply(op.r, p, g, j, fs))

RECURSIVE OutOrd(_, _)
OutOrd(op, o) ==
  CASE op.k = "Id"  -> o
    [] op.k = "Dx"  -> Max(op.n, o) - op.n
    [] op.k = "X"   -> o + op.n
    [] op.k = "Spl" -> o + op.vo
    [] Scal(op) /\ op.k \in {"ScalL", "ScalR", "Div"} -> OutOrd(op.o, o)
    [] Scal(op) -> Max(OutOrd(op.o, o), o)             \* sum with ScalarMultiplication{c} (identity inside)
    [] op.k = "Neg" -> OutOrd(op.o, o)
    [] op.k = "Prod" -> OutOrd(op.l, OutOrd(op.r, o))
    [] OTHER -> Max(OutOrd(op.l, o), OutOrd(op.r, o))

RECURSIVE FactorsOn(_, _, _)
\* every spline factor of the expression lives on grid g
FactorsOn(op, g, fs) ==
  CASE op.k = "Spl" -> fs[op.slot].g = g
    [] op.k \in {"Id", "X", "Dx"} -> TRUE
    [] Bin(op) -> FactorsOn(op.l, g, fs) /\ FactorsOn(op.r, g, fs)
    [] OTHER -> FactorsOn(op.o, g, fs)

\* applying op to spline a: same support, transformed pieces (C04, C05)
ApplyPost(op, a, fs, r) ==
  /\ r.g = a.g /\ SplValid(r) /\ r.o = OutOrd(op, a.o)
  /\ \A j \in Ivs(a.g) :
       DenAt(r, j) = IF HasIv(a, j) THEN PTrim(DenApply(op, Piece(a, j), a.g, j, fs)) ELSE <<>>

-----------------------------------------------------------------------------
\* Level I

\* C++ integer division truncates toward zero
IntQuot(a, b) == Sign(a) * Sign(b) * (Abs(a) \div Abs(b))

\* the value a scalar of C++ type t holds after  static_cast<S>(1) / c
Reciprocal(t, v) ==
  IF t \in {"int", "uint", "ulong"} /\ Bug_IntReciprocal THEN FromInt(IntQuot(1, v[1])) ELSE RDiv(ROne, v)

PadOrCut(t, n) == [k \in 1..n |-> PCoef(t, k)]

RECURSIVE TransformI(_, _, _, _, _)
TransformI(op, t, g, j, fs) ==
  LET o == Len(t) - 1 IN
  CASE op.k = "Id" -> t
    [] op.k = "Dx" ->
         IF op.n > o THEN <<RZero>>
         ELSE [i \in 1..(o - op.n + 1) |-> RMul(FromInt(Falling(i - 1, op.n)), t[i + op.n])]
    [] op.k = "X" ->
         LET n == op.n
             xm == RDiv(RAdd(g[j + 1], g[j + 2]), RTwo)
             \* expanded[n - i] = binom(n, i) * xm^i   (0-based), i.e. coefficient of u^(n-i)
             expanded == [m \in 1..(n + 1) |-> RMul(FromInt(Binom(n, n - (m - 1))), RPow(xm, n - (m - 1)))]
         IN [k \in 1..(Len(t) + n) |->
               RSumSeq([i \in 1..Len(t) |-> RMul(PCoef(expanded, k - i + 1), t[i])])]
    [] op.k = "Spl" ->
         LET v == fs[op.slot]
             rel == IF Bug_SplineOpLookupByPoint THEN RelFromAbs(SplSup(v), j) ELSE IvFromAbs(SplSup(v), j)
             n == Len(t) + op.vo
         IN IF rel = None THEN PZeros(n)
            ELSE PadOrCut(PMul(t, v.c[rel + 1]), n)
    [] op.k \in {"ScalL", "ScalR"} -> PScale(op.v, TransformI(op.o, t, g, j, fs))
    [] op.k = "Div" -> PScale(Reciprocal(op.t, op.v), TransformI(op.o, t, g, j, fs))
    [] op.k \in {"AddSR", "AddSL"} -> PAdd(TransformI(op.o, t, g, j, fs), PScale(op.v, t))
    [] op.k = "SubSR" -> PAdd(TransformI(op.o, t, g, j, fs), PScale(FromInt(-1), PScale(op.v, t)))
    [] op.k = "SubSL" -> PAdd(PScale(op.v, t), PScale(FromInt(-1), TransformI(op.o, t, g, j, fs)))
    [] op.k = "Neg" -> PScale(FromInt(-1), TransformI(op.o, t, g, j, fs))
    [] op.k = "Prod" -> TransformI(op.l, TransformI(op.r, t, g, j, fs), g, j, fs)
    [] op.k = "Sum" -> PAdd(TransformI(op.l, t, g, j, fs), TransformI(op.r, t, g, j, fs))
    [] op.k = "Diff" -> PAdd(TransformI(op.l, t, g, j, fs), PScale(FromInt(-1), TransformI(op.r, t, g, j, fs)))

\* the lookup of the factor's coefficient tuple stays inside it (C09)
RECURSIVE FactorLookupInBounds(_, _, _)
FactorLookupInBounds(op, j, fs) ==
  CASE op.k = "Spl" ->
         LET v == fs[op.slot]
             rel == IF Bug_SplineOpLookupByPoint THEN RelFromAbs(SplSup(v), j) ELSE IvFromAbs(SplSup(v), j)
         IN rel # None => rel + 1 \in DOMAIN v.c
    [] op.k \in {"Id", "X", "Dx"} -> TRUE
    [] Bin(op) -> FactorLookupInBounds(op.l, j, fs) /\ FactorLookupInBounds(op.r, j, fs)
    [] OTHER -> FactorLookupInBounds(op.o, j, fs)

\* transformSpline: same support, one transform per interval with the absolute index
ApplyI(op, a, fs) ==
  [a EXCEPT !.o = OutOrd(op, a.o),
            !.c = [r \in DOMAIN a.c |-> TransformI(op, a.c[r], a.g, (r - 1) + a.s, fs)]]

\* the static array size transform() returns agrees with outputOrder
SizeOK(op, a, fs) == \A r \in DOMAIN a.c : Len(ApplyI(op, a, fs).c[r]) = OutOrd(op, a.o) + 1
=============================================================================
